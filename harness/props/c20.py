"""C20 - comments reach docstrings intact; whitespace clean-up never changes code meaning.

spec      : spec/Text.tla.  The functions under test are textwrap + regexes + Jinja and are NOT transcribed;
            the specification is (a) the input space: comment texts as token strings over an alphabet, the
            parameter tuples of wrap/rst, a grammar of Python source layouts, the origins a comment can be
            planted at; (b) the property as relational post-conditions over (input, parameters, observed output)
            - WrapViolated, RstViolated, FixViolated, EmbedViolated; (c) the classification of failing inputs
            that names violation keys; (d) reference observation generators + mutants for its own model check.
1 spec    : TLC model-checks Text on its reference observations (every clause satisfiable on every input of the
            bounded space) and must REJECT every mutant observation generator (dropped / duplicated / swapped
            word, overlong line, exception, missing quote guard, eaten code line or indentation, kept trailing
            blanks, added blank line, non-idempotence, wrong final newline, verbatim docstring rendering).
2 spec->code: TLC emits the texts (exhaustive to a bound, random walks beyond), parameter tuples, layouts, docs.
            Worker processes call the REAL gapic.utils.lines.wrap, gapic.utils.rst.rst,
            gapic.generator.formatter.fix_whitespace (imported from the current tree) and the REAL generator
            (comments planted in an abstract API), and project the results by pure lexing:
              text   -> atoms (runs of spaces, tab, newline, quote, backslash, other)
              source -> lines [indentation, content, trailing spaces]; ast.parse/ast.dump equality is a boolean
              module -> compiles?, AST without docstrings equal to the harmless-comment baseline?, docstring of
                        the owner is ONE string token?, its words
3 code->spec: every observation is one trace (in_*, par_*, out_*) validated by spec/TextTrace.tla.  Verdicts are
            total in one TLC run per batch (TextTrace.classify.cfg: REJECT lines carrying the violated clauses and
            the class, both computed in TLA+); the minimal input of every class is then re-validated alone under
            TextTrace.cfg (Inv_Post as invariant) and must be rejected there, and a sample of accepted traces must
            be accepted there.
Violation keys (one per class):  wrap:<class> / rst:<class>  e.g. wrap:first-line-rewrap:leading-blank,
            wrap:first-line-rewrap:tab, wrap:blank-text-indexerror, wrap:blank-first-line-indexerror,
            rst:tail-quote:pandoc-route, rst:tail-quote:wrap-route;
            fixws:<clause>:<source kind>;  embed:<class>:<origin>:<module>  e.g.
            embed:triple-quote:message:types/tx.py, embed:trailing-backslash:service:services/svc/client.py,
            embed:trailing-quote:service:services/svc/client.py.
Source format: rst() is also called with source_format="rst" (the Returns: sections; width 72, indent 16); on the wrap
            route the words clause demands the text back unchanged up to re-wrapping, backslashes included
            (rst:backslashes:source-rst); rst-format input is not sent down the converter route (a real converter
            legitimately consumes its escapes).  The comment of the RESPONSE message is planted too (origin "response",
            standard and Ads template sets) and the Returns: section of the sync / asyncio / Ads client methods is compared
            word for word with it: embed:<class>:message:response-comment/[ads/]<module>.
Fixed corner set (both tiers, CornerTexts of Text.tla): for every markup character a comment that takes the converter
            route of rst() and ends in a double quote, on one line / two lines / with a blank line: run through rst()
            with the converter parameter tuples, and planted at every origin (quick: the one-line *gadgets* text).
"""
import ast
import collections
import copy
import hashlib
import io
import json
import os
import random
import re
import shutil
import tempfile
import time
import tokenize
import warnings
from concurrent.futures import ProcessPoolExecutor, ThreadPoolExecutor

from .. import core, gen, tlc

NPROC = 8
# single-worker TLC runs: small heap, two GC threads, C1 only (measured: 3x less CPU per batch than the defaults)
JVM = {'JAVA_TOOL_OPTIONS': '-Xmx3g -Xss16m -XX:ParallelGCThreads=2 -XX:TieredStopAtLevel=1'}
PKG = 'acme.tx.v1'
PKGDIR = 'acme/tx_v1/'
ORIGINS = ['message', 'response', 'field', 'enum', 'value', 'service', 'method']   # response = comment of the response message
MARK = {o: 'zqmk' + o for o in ORIGINS}          # harmless baseline comments, also used to discover docstring sites

# ---------------------------------------------------------------------------------------------------
# projections (pure lexing, no expectation)
_LEX = re.compile(r'( +)|(\t)|(\n)|(")|(\\)|([^ \t\n"\\]+)')
_KINDS = ['sp', 'tab', 'nl', 'q', 'bs', 'w']


def lex(s):
    """string -> atoms [k, s] as defined in Text.tla"""
    return [dict(k=_KINDS[m.lastindex - 1], s=m.group()) for m in _LEX.finditer(s)]


def proj_lines(text, hashed=False):
    """source text -> lines [i = indentation, t = content (or a digest of it), r = trailing spaces]; a line
    without content has i = 0 and r = its length"""
    out = []
    for s in text.split('\n'):
        if not s.strip():
            out.append(dict(i=0, t='', r=len(s)))
            continue
        core_ = s.rstrip(' ')
        body = core_.lstrip()
        out.append(dict(i=len(core_) - len(body), r=len(s) - len(core_),
                        t=hashlib.md5(body.encode()).hexdigest()[:12] if hashed else body))
    return out


def norm_ast(src):
    """ast.dump with string constants compared up to whitespace; None if src is not valid Python"""
    try:
        with warnings.catch_warnings():
            warnings.simplefilter('ignore')
            t = ast.parse(src)
    except (SyntaxError, ValueError):
        return None
    for n in ast.walk(t):
        if isinstance(n, ast.Constant) and isinstance(n.value, str):
            n.value = ''.join(n.value.split())
    return ast.dump(t)


# ---------------------------------------------------------------------------------------------------
# TLC batches
def run_traces(cfg, traces, timeout=3000):
    """one single-worker TLC run of TextTrace over a batch (as tlc.validate_traces, with the fast JSON encoder)"""
    work = tempfile.mkdtemp(prefix='tlctr-')
    try:
        tf = os.path.join(work, 'traces.json')
        with open(tf, 'w') as f:
            f.write(json.dumps(traces, separators=(',', ':')))
        r = tlc.run('TextTrace', cfg, workers=1, env=dict(JVM, TRACE_FILE=tf), timeout=timeout, deadlock=False)
    finally:
        shutil.rmtree(work, ignore_errors=True)
    n = None
    for v in r.tagged.get('ACCEPTED', []):
        if v.strip().isdigit():
            n = int(v.strip())
    return n, r


def _classify(traces, descs):
    """one TLC run over a batch: total verdicts.  Returns dict(n, accepted, classes{key: [count, clauses, desc]},
    generated, distinct)."""
    n, r = run_traces('TextTrace.classify.cfg', traces)
    if n is None or n != len(traces) or r.violated is not None:
        return dict(error=f'TextTrace.classify walked {n} of {len(traces)} traces (violated={r.violated} rc={r.rc})\n'
                          + r.out[-3000:])
    classes = {}
    rejected = set()
    for x in r.tagged.get('REJECT', []):
        rec = json.loads(json.loads(x))
        d = descs[rec['tid'] - 1]
        rejected.add(rec['tid'] - 1)
        key = d['keyfmt'].format(cls=rec['class'])
        cur = classes.get(key)
        size = d.get('size', 0)
        if cur is None:
            classes[key] = [1, sorted(rec['clauses']), d, size, rec['tid'] - 1]
        else:
            cur[0] += 1
            cur[1] = sorted(set(cur[1]) | set(rec['clauses']))
            if size < cur[3]:
                cur[2], cur[3], cur[4] = d, size, rec['tid'] - 1
    for key, cur in classes.items():
        cur[4] = traces[cur[4]]                        # the minimal trace itself, for the strict re-validation
    okidx = [i for i in range(len(traces)) if i not in rejected]
    return dict(n=len(traces), accepted=len(okidx), classes=classes, generated=r.generated, distinct=r.distinct,
                ok_sample=[traces[i] for i in okidx[:: max(1, len(okidx) // 25)][:25]])


class Agg:
    """merges batch results in the parent"""

    def __init__(self, chk, label):
        self.chk = chk; self.label = label
        self.classes = {}; self.n = 0; self.accepted = 0; self.runs = 0; self.ok_sample = []

    def add(self, res):
        if 'error' in res:
            raise core.MachineryError(f'{self.label}: {res["error"]}')
        self.n += res['n']; self.accepted += res['accepted']; self.runs += 1
        self.chk.states += res['distinct']; self.chk.transitions += res['generated']
        if len(self.ok_sample) < 100:
            self.ok_sample += res['ok_sample']
        for key, (cnt, clauses, d, size, tr) in res['classes'].items():
            cur = self.classes.get(key)
            if cur is None:
                self.classes[key] = [cnt, clauses, d, size, tr]
            else:
                cur[0] += cnt
                cur[1] = sorted(set(cur[1]) | set(clauses))
                if size < cur[3]:
                    cur[2], cur[3], cur[4] = d, size, tr

    def finish(self):
        chk = self.chk
        chk.traces += self.accepted
        chk.evaluations += self.n
        chk.tlc_runs.append(dict(label=self.label + ' (TextTrace.classify batches)', runs=self.runs, traces=self.n,
                                 accepted=self.accepted, rejected=self.n - self.accepted, classes=len(self.classes)))
        return self.classes


def _strict_one(tr):
    acc, rej, runs = tlc.validate_all('TextTrace', 'TextTrace.cfg', [tr], env=JVM, timeout=900)
    return acc, [(i, info) for i, _t, info in rej]


def confirm_and_report(chk, classes, ok_sample, label, quick=False):
    """strict re-validation (Inv_Post as INVARIANT): class representatives must be rejected in isolation (quick: the
    first class of every function, thorough: every class), the sample of accepted traces must be accepted; then
    report one violation per class."""
    allkeys = sorted(classes)
    keys = allkeys
    if quick:
        first = {}
        for k in allkeys:
            first.setdefault(k.split(':')[0], k)
        keys = sorted(first.values())
    with ThreadPoolExecutor(8) as ex:
        okf = ex.submit(tlc.validate_all, 'TextTrace', 'TextTrace.cfg', ok_sample, env=JVM, timeout=900) if ok_sample else None
        res = list(ex.map(_strict_one, [classes[k][4] for k in keys]))
        okres = okf.result() if okf else None
    for k, (acc, rej) in zip(keys, res):
        if acc != 0 or not rej or rej[0][1].get('violated') != 'Inv_Post':
            raise core.MachineryError(f'{label}: class {k} was rejected in the batch but not by TextTrace.cfg alone: {acc} {rej}')
    if okres is not None:
        acc, rej, runs = okres
        if rej or acc != len(ok_sample):
            raise core.MachineryError(f'{label}: traces accepted in the batch are rejected by TextTrace.cfg: {rej[:2]}')
        chk.tlc_runs.append(dict(label=label + ' (TextTrace.cfg strict, accepted sample)', traces=len(ok_sample), accepted=acc))
    chk.tlc_runs.append(dict(label=label + ' (TextTrace.cfg strict, one run per class representative)', runs=len(keys),
                             rejected=len(keys)))
    for k in allkeys:
        cnt, clauses, d, _size, tr = classes[k]
        d = {x: y for x, y in d.items() if x not in ('keyfmt', 'size')}
        chk.violation(k, f'{cnt} observation(s) violate clause(s) {clauses}; minimal: {json.dumps(d)[:900]}',
                      dict(count=cnt, clauses=clauses, minimal=d, trace=tr))


# ---------------------------------------------------------------------------------------------------
# part 2a: wrap / rst
_NL = {'none': None, 'true': True, 'false': False}


def _text_job(job):
    gen.ensure_env()
    from gapic.utils.lines import wrap
    from gapic.utils.rst import rst
    traces, descs = [], []
    for fn, toks, text, plist in job:
        for p in plist:
            raised = ''
            try:
                if fn == 'wrap':
                    out = wrap(text, p['width'], offset=p['offset'], indent=p['indent'])
                else:
                    out = rst(text, width=p['width'], indent=p['indent'], nl=_NL[p['nl']], source_format=p['fmt'])
            except Exception as e:  # the property says "never": an exception is an observation, not a crash
                out, raised = '', type(e).__name__.lower()
            if not isinstance(out, str):
                out, raised = '', 'not-a-string'
            traces.append(dict(fn=fn, events=[dict(ev='in_text', toks=toks), dict(ev='par_' + fn, **p),
                                              dict(ev='out_text', atoms=lex(out), raised=raised)]))
            descs.append(dict(keyfmt=fn + ':{cls}', size=len(toks) * 1000000 + len(text) * 1000 + p['width'], fn=fn, toks=toks, text=text,
                              par=p, out=out, raised=raised))
    res = _classify(traces, descs)
    res['nontrivial'] = sorted({f'{fn}:{" ".join(toks)}' for fn, toks, text, _p in job if len(text.split()) >= 2})
    return res


# every case emission of a tier is started at once (threads around TLC processes); the parts pick the results up
_EMITS = {}
_USED = set()


def _emit_key(cfg, kw):
    return (cfg, kw.get('simulate'), kw.get('seed'))


def prefetch(ex, quick, seed):
    runs = [('Text.emit.inputs.small.cfg' if quick else 'Text.emit.inputs.full.cfg', dict(timeout=1500)),
            ('Text.emit.params.cfg', {}), ('Text.emit.corners.cfg', {}),
            ('Text.emit.simtexts.cfg', dict(simulate=800 if quick else 12000, depth=12, seed=seed + 1, timeout=1500)),
            ('Text.emit.layouts.small.cfg', dict(timeout=1500)),
            ('Text.emit.simlayouts.cfg', dict(simulate=600 if quick else 6000, depth=10, seed=seed + 2, timeout=1500)),
            ('Text.emit.docs.small.cfg' if quick else 'Text.emit.docs.full.cfg', {})]
    if not quick:
        runs += [('Text.emit.layouts.full.cfg', dict(timeout=1500)), ('Text.emit.docs.conv.cfg', {})]
    for cfg, kw in runs:
        _EMITS[_emit_key(cfg, kw)] = ex.submit(tlc.emit_cases, 'Text', cfg, deadlock=False, **kw)


def emit_cases(module, cfg, **kw):
    """tlc.emit_cases, served from the prefetched runs when there is one (a result used twice is accounted once)"""
    key = _emit_key(cfg, kw)
    f = _EMITS.get(key)
    if f is None:
        return tlc.emit_cases(module, cfg, **kw)
    cases, r = f.result()
    if key in _USED:
        r = copy.copy(r); r.generated = r.distinct = 0
    _USED.add(key)
    return list(cases), r


def emit_corners(chk):
    corners, r = emit_cases('Text', 'Text.emit.corners.cfg', deadlock=False)
    chk.add_tlc(r, 'Text input emission (fixed corner texts: markup + trailing quote)')
    if not corners or not all(c['conv'] for c in corners):
        raise core.MachineryError('no corner texts emitted')
    return sorted(corners, key=lambda c: c['toks'])


def part_text(chk, quick, rnd, pool):
    cases, r = emit_cases('Text', 'Text.emit.inputs.small.cfg' if quick else 'Text.emit.inputs.full.cfg',
                              deadlock=False, timeout=1500)
    chk.add_tlc(r, 'Text input emission (texts, exhaustive)')
    pcases, r = emit_cases('Text', 'Text.emit.params.cfg', deadlock=False)
    chk.add_tlc(r, 'Text parameter emission')
    sims, r = emit_cases('Text', 'Text.emit.simtexts.cfg', deadlock=False, simulate=800 if quick else 12000,
                             depth=12, seed=chk.seed + 1, timeout=1500)
    chk.add_tlc(r, 'Text input emission (texts, random walks)')
    if not cases or not pcases or not sims:
        raise core.MachineryError('no text cases / parameters emitted')
    seen = {tuple(c['toks']) for c in cases}
    nex = len(cases)
    for c in sims:
        if tuple(c['toks']) not in seen:
            seen.add(tuple(c['toks'])); cases.append(c)
    wrap_p = [c['par'] for c in pcases if c['fn'] == 'wrap']
    rst_p = [c['par'] for c in pcases if c['fn'] == 'rst']
    conv_p = [c['par'] for c in pcases if c['fn'] == 'rst' and c['conv']]
    conv = sorted((c for c in cases if c['conv']), key=lambda c: c['toks'])
    conv = rnd.sample(conv, min(len(conv), 8 if quick else 300))
    def some(plist, c):
        # quick tier: every parameter tuple for texts up to 2 tokens and for texts without words (fixed corner set),
        # a seeded choice of 3 tuples for the others
        return plist if not quick or len(c['toks']) <= 2 or not c['text'].split() else rnd.sample(plist, 3)
    units = [('wrap', c['toks'], c['text'], some(wrap_p, c)) for c in cases]
    units += [('rst', c['toks'], c['text'], some(rst_p, c)) for c in cases if not c['conv']]
    convunits = [('rst', c['toks'], c['text'], conv_p) for c in conv]
    # fixed corner set of the specification (both tiers): converter route + trailing double quote
    corners = emit_corners(chk)
    convunits += [('rst', c['toks'], c['text'], conv_p) for c in corners]
    units += [('wrap', c['toks'], c['text'], wrap_p) for c in corners]
    # jobs of about 20 000 observations; the slow converter calls are spread over all jobs
    jobs, cur, n = [], [], 0
    for u in units:
        cur.append(u); n += len(u[3])
        if n >= (10000 if quick else 20000):
            jobs.append(cur); cur, n = [], 0
    if cur:
        jobs.append(cur)
    for i, u in enumerate(convunits):
        jobs[i % len(jobs)].append(u)
    agg = Agg(chk, 'wrap/rst')
    for res in pool.map(_text_job, jobs):
        agg.add(res)
        chk.nontrivial.update(res['nontrivial'])
    classes = agg.finish()
    confirm_and_report(chk, classes, agg.ok_sample, 'wrap/rst', quick)
    chk.extra['texts'] = dict(exhaustive=nex, random_walk=len(cases) - nex, wrap_params=len(wrap_p), rst_params=len(rst_p),
                              converter_texts=len(conv), corner_texts=len(corners), observations=agg.n)
    chk.sample(dict(fn='wrap', toks=cases[7]['toks'], text=cases[7]['text'], params=wrap_p[0]))
    chk.sample(dict(fn='rst', toks=cases[-1]['toks'], text=cases[-1]['text'], params=rst_p[-1]))


# ---------------------------------------------------------------------------------------------------
# part 2b: fix_whitespace
def kind_text(kind, lvl):
    ind = '    ' * lvl
    return {
        'stmt': ind + 'x = 1', 'stmt_t': ind + 'x = 1   ', 'und': ind + '_x = 3', 'imp': ind + 'import os',
        'pass': ind + 'pass', 'cmt': ind + '# comment', 'deco': ind + '@dec', 'def': ind + 'def f(a):',
        'class': ind + 'class A:', 'if': ind + 'if y:',
        'doc': ind + '"""Doc.\n\n' + ind + 'More.   \n' + ind + '"""',
        'strb': ind + 's = """a\n\n\n\n        b\n\n\n_c"""',
    }[kind]


ENDING = {'none': '', 'one': '\n', 'many': '\n\n\n', 'spaces': '\n\n    '}


def layout_source(items, ending):
    lines = []
    for it in items:
        g = it['gap']
        lines += ['    ' if g.endswith('s') else ''] * int(g[0])
        lines.append(kind_text(it['kind'], it['lvl']))
    return '\n'.join(lines) + ENDING[ending]


def fix_trace(fix_whitespace, src, ending, hashed=False, out=None):
    """observation of one call.  out: result already produced by the generator's own call, if recorded."""
    raised = ''
    if out is None:
        try:
            out = fix_whitespace(src)
        except Exception as e:
            out, raised = '', type(e).__name__.lower()
    try:
        again = fix_whitespace(out)
    except Exception as e:
        again, raised = '', raised or type(e).__name__.lower()
    a = norm_ast(src)
    tr = dict(fn='fixws', events=[dict(ev='in_src', src=proj_lines(src, hashed)), dict(ev='par_fix', ending=ending),
                                  dict(ev='out_fix', lines=proj_lines(out, hashed), again=proj_lines(again, hashed),
                                       parses=a is not None, ast_same=a is not None and norm_ast(out) == a)])
    return tr, out, a is not None


def _layout_job(job):
    from gapic.generator.formatter import fix_whitespace
    traces, descs, nt, bad = [], [], [], []
    for items, endings in job:
        for e in endings:
            src = layout_source(items, e)
            tr, out, parses = fix_trace(fix_whitespace, src, e)
            if not parses:
                bad.append(src)
            traces.append(tr)
            descs.append(dict(keyfmt='fixws:{cls}:grammar', size=len(src), items=items, ending=e, src=src, out=out))
        if any(int(it['gap'][0]) >= 2 for it in items) or any(it['kind'] in ('stmt_t', 'doc', 'strb') for it in items):
            nt.append('fixws:' + ' '.join(f"{it['gap']}/{it['kind']}{it['lvl']}" for it in items))
    res = _classify(traces, descs)
    res['nontrivial'] = nt
    res['unparsable'] = bad[:3]
    return res


def api_docs(docs):
    """the carrier API for comments: every origin carries docs[origin]"""
    return dict(files=[dict(
        name='acme/tx/v1/tx.proto', package=PKG,
        enums=[dict(name='Kind', values=['KIND_UNSPECIFIED', 'ALPHA'], doc=docs.get('enum'))],
        messages=[dict(name='Req', doc=docs.get('message'),
                       fields=[dict(name='name', doc=docs.get('field')), dict(name='kind', type='enum:Kind')]),
                  dict(name='Resp', doc=docs.get('response'), fields=[dict(name='x')])],
        services=[dict(name='Svc', doc=docs.get('service'),
                       methods=[dict(name='Do', **{'in': 'Req', 'out': 'Resp'}, doc=docs.get('method'),
                                     http=[dict(verb='get', uri='/v1/{name=items/*}')], sigs=['name'])])])])


VARIANT_OPTS = {'std': dict(transport=['grpc', 'rest'], snippets=False),
                'ads': dict(templates='ads-templates', old_naming=True, snippets=False)}   # Ads template set


def build_request(docs, workdir, variant='std'):
    """abstract API -> request; the enum VALUE comment is added here (absapi has no slot for it):
    path [5 enum_type, 0, 2 value, 1] of the target file, as protoc writes it."""
    from .. import absapi
    req = absapi.build_request(api_docs(docs), gen.option_string(VARIANT_OPTS[variant], workdir))
    if docs.get('value') is not None:
        f = [x for x in req.proto_file if x.name == 'acme/tx/v1/tx.proto'][0]
        loc = f.source_code_info.location.add()
        loc.path.extend([5, 0, 2, 1]); loc.leading_comments = docs['value']
    return req


def _emitted_job(which):
    """generate one sample API with the real generator, recording the generator's OWN calls of fix_whitespace
    (input, output) from outside, then also feed the formatter perturbed variants of every emitted .py file."""
    gen.ensure_env()
    from gapic.generator import formatter
    real = formatter.fix_whitespace
    calls = []

    def recorder(code):
        out = real(code)
        calls.append((code, out))
        return out
    formatter.fix_whitespace = recorder
    try:
        with gen.scratch() as work:
            if which == 'pager':
                from . import c07
                _req, res = gen.generate_api(c07.carrier_api(), dict(transport=['grpc', 'rest']), work)
            else:
                res = gen.generate(build_request({o: f'{MARK[o]} comment of the {o}.\n\n Second paragraph:\n - item "one"\n' for o in ORIGINS}, work))
    finally:
        formatter.fix_whitespace = real
    if res.error:
        return dict(error='generator failed: ' + res.error[:2000])
    by_out = {}
    for code, out in calls:
        by_out.setdefault(out, code)
    traces, descs, nt = [], [], []
    missing = 0
    for f in res.file:
        if not f.name.endswith('.py'):
            continue
        post = f.content
        variants = []
        if post in by_out:
            variants.append(('pre-formatter', by_out[post], post))     # the generator's own call
        else:
            missing += 1
        lines = post.split('\n')
        variants.append(('as-emitted', post, None))
        variants.append(('trailing-blanks', '\n'.join(l + ('   ' if i % 7 == 3 else '') for i, l in enumerate(lines)), None))
        variants.append(('blank-lines-x3', re.sub(r'\n\n', '\n\n\n\n\n\n', post), None))
        variants.append(('blank-lines-spaces', re.sub(r'\n\n', '\n    \n  \n\n', post), None))
        variants.append(('no-final-newline', post.rstrip('\n'), None))
        variants.append(('many-final-newlines', post + '\n\n  \n', None))
        for vname, src, out in variants:
            tr, out, parses = fix_trace(real, src, 'file', hashed=True, out=out)
            traces.append(tr)
            descs.append(dict(keyfmt='fixws:{cls}:emitted-' + vname, size=len(src), file=f.name, variant=vname, api=which,
                              src_sha1=hashlib.sha1(src.encode()).hexdigest()))
            if parses and src != out:
                nt.append(f'fixws:{which}:{f.name}:{vname}')
    out = _classify(traces, descs)
    out['nontrivial'] = nt
    out['no_recorded_call'] = missing
    out['files'] = len({d['file'] for d in descs})
    return out


def part_fix(chk, quick, rnd, pool):
    lay, r = emit_cases('Text', 'Text.emit.layouts.small.cfg', deadlock=False, timeout=1500)
    chk.add_tlc(r, 'Text input emission (layouts up to 2 items, every gap)')
    nex = len(lay)
    extra = []
    if not quick:
        extra, r = emit_cases('Text', 'Text.emit.layouts.full.cfg', deadlock=False, timeout=1500)
        chk.add_tlc(r, 'Text input emission (layouts up to 3 items)')
    sims, r = emit_cases('Text', 'Text.emit.simlayouts.cfg', deadlock=False, simulate=600 if quick else 6000,
                             depth=10, seed=chk.seed + 2, timeout=1500)
    chk.add_tlc(r, 'Text input emission (layouts, random walks)')
    if not lay or not sims:
        raise core.MachineryError('no layouts emitted')
    seen = set()
    allc = []
    for c in lay + extra + sims:
        k = json.dumps(c['items'], sort_keys=True)
        if k not in seen:
            seen.add(k); allc.append(c['items'])
    pcases, r = emit_cases('Text', 'Text.emit.params.cfg', deadlock=False)
    endings = [c['par']['ending'] for c in pcases if c['fn'] == 'fixws']
    per = 700 if quick else 4000
    units = [(items, endings) for items in allc]
    jobs = [units[i:i + per] for i in range(0, len(units), per)]
    futs = [pool.submit(_emitted_job, w) for w in ('pager', 'docs')]
    agg = Agg(chk, 'fix_whitespace')
    for res in pool.map(_layout_job, jobs):
        if res.get('unparsable'):
            raise core.MachineryError('layout grammar produced a source that is not valid Python:\n' + res['unparsable'][0])
        agg.add(res)
        chk.nontrivial.update(res['nontrivial'])
    nfiles = 0; norec = 0
    for f in futs:
        res = f.result()
        agg.add(res)
        chk.nontrivial.update(res['nontrivial'])
        nfiles += res['files']; norec += res['no_recorded_call']
    classes = agg.finish()
    confirm_and_report(chk, classes, agg.ok_sample, 'fix_whitespace', quick)
    chk.extra['sources'] = dict(layouts_exhaustive=nex + len(extra), layouts_random_walk=len(allc) - nex - len(extra),
                                endings=endings, emitted_py_files=nfiles, emitted_without_recorded_call=norec,
                                observations=agg.n)
    chk.sample(dict(fn='fixws', items=allc[-1], ending='many', src=layout_source(allc[-1], 'many')))


# ---------------------------------------------------------------------------------------------------
# part 2c: docstring embedding
def strip_docstrings(tree):
    for n in ast.walk(tree):
        if isinstance(n, (ast.Module, ast.ClassDef, ast.FunctionDef, ast.AsyncFunctionDef)):
            b = n.body
            if b and isinstance(b[0], ast.Expr) and isinstance(b[0].value, ast.Constant) and isinstance(b[0].value.value, str):
                n.body = b[1:] or [ast.Pass()]
    return tree


def owners(tree, prefix=''):
    """(qualified name, node) of every docstring owner"""
    yield prefix or '<module>', tree
    for n in tree.body if hasattr(tree, 'body') else []:
        if isinstance(n, (ast.ClassDef, ast.FunctionDef, ast.AsyncFunctionDef)):
            yield from owners(n, (prefix + '.' if prefix else '') + n.name)
        elif isinstance(n, (ast.If, ast.Try, ast.With)):
            for m in ast.walk(n):
                if m is not n and isinstance(m, (ast.ClassDef, ast.FunctionDef, ast.AsyncFunctionDef)):
                    yield from owners(m, (prefix + '.' if prefix else '') + m.name)


def module_view(src):
    """compile + parse one module: dict(compiles, skeleton, docs{qualname: (ntokens, value)}, warnings)"""
    with warnings.catch_warnings(record=True) as wl:
        warnings.simplefilter('always')
        try:
            compile(src, '<emitted>', 'exec', dont_inherit=True)
        except (SyntaxError, ValueError) as e:
            return dict(compiles=False, error=f'{type(e).__name__}: {e}', warnings=len(wl))
    nwarn = len(wl)
    with warnings.catch_warnings():
        warnings.simplefilter('ignore')
        tree = ast.parse(src)
        skeleton = hashlib.sha1(ast.dump(strip_docstrings(ast.parse(src))).encode()).hexdigest()
    toks = []
    try:
        toks = [t for t in tokenize.generate_tokens(io.StringIO(src).readline) if t.type == tokenize.STRING]
    except (tokenize.TokenError, SyntaxError):  # pragma: no cover
        pass
    docs = {}
    for name, node in owners(tree):
        b = getattr(node, 'body', [])
        if b and isinstance(b[0], ast.Expr) and isinstance(b[0].value, ast.Constant) and isinstance(b[0].value.value, str):
            e = b[0]
            span = (e.lineno, e.col_offset), (e.end_lineno, e.end_col_offset)
            nt = sum(1 for t in toks if span[0] <= t.start and t.end <= span[1])
            docs[name] = (nt, e.value.value)
        else:
            docs[name] = (0, '')
    return dict(compiles=True, skeleton=skeleton, docs=docs, warnings=nwarn)


_BCC = None


def enable_template_cache():
    """Every Generator builds a fresh jinja2.Environment and re-compiles all templates (about 85% of a generation).
    Inside a worker the compiled templates are kept in a jinja2.BytecodeCache (a supported jinja2 feature; entries
    are validated against the checksum of the template source).  compute_baseline checks that the emitted files
    are byte-identical with and without it."""
    global _BCC
    import jinja2
    if _BCC is not None:
        return

    class MemCache(jinja2.BytecodeCache):
        def __init__(self):
            self.store = {}

        def load_bytecode(self, bucket):
            b = self.store.get(bucket.key)
            if b is not None:
                bucket.bytecode_from_string(b)

        def dump_bytecode(self, bucket):
            self.store[bucket.key] = bucket.bytecode_to_string()

    _BCC = MemCache()
    base = jinja2.Environment

    class CachedEnvironment(base):
        def __init__(self, *a, **kw):
            kw.setdefault('bytecode_cache', _BCC)
            super().__init__(*a, **kw)

    jinja2.Environment = CachedEnvironment


_BASE_FUTURE = None


def compute_baseline(_=None):
    """the carrier API with a harmless marker comment at every origin: view of every emitted module and the docstring
    owners that carry each origin's comment (sites are discovered, not hard-coded)."""
    gen.ensure_env()
    with gen.scratch() as work:
        req = build_request({o: MARK[o] for o in ORIGINS}, work)
        res = gen.generate(req)
        enable_template_cache()
        for _i in range(2):                     # fills the cache, then uses it
            again = gen.generate(req)
            if [(f.name, f.content) for f in again.file] != [(f.name, f.content) for f in res.file] or again.error != res.error:
                return dict(error='the template bytecode cache changes the output of the generator')
    if res.error:
        return dict(error='baseline generation failed: ' + res.error[:1000])
    variants = {}
    for variant in VARIANT_OPTS:
        if variant != 'std':
            with gen.scratch() as work:
                res = gen.generate(build_request({o: MARK[o] for o in ORIGINS}, work, variant))
            if res.error:
                return dict(error=f'baseline generation ({variant}) failed: ' + res.error[:1000])
        files = {}
        for f in res.file:
            if f.name.endswith('.py'):
                v = module_view(f.content)
                if not v['compiles']:
                    return dict(broken=f.name, detail=v['error'])
                sites = {o: sorted(q for q, (nt, val) in v['docs'].items() if MARK[o] in val) for o in ORIGINS}
                files[f.name] = dict(sha=hashlib.sha1(f.content.encode()).hexdigest(), view=v, skeleton=v['skeleton'], sites=sites)
        variants[variant] = files
    return dict(files=variants)


def returns_section(val):
    """the part of a method docstring after its 'Returns:' heading (pure text split)"""
    return val.split('Returns:', 1)[1] if 'Returns:' in val else val


def _embed_job(args):
    base, job = args
    gen.ensure_env()
    enable_template_cache()
    traces, descs, nt = [], [], []
    nwarn = 0
    for toks, text, origin in job:
        docs = {o: MARK[o] for o in ORIGINS}
        docs[origin] = text
        # the response comment is also rendered with the Ads template set (its Returns: sections are the third
        # call site of rst(source_format="rst"))
        for variant in (['std', 'ads'] if origin == 'response' else ['std']):
            err = ''
            try:
                with gen.scratch() as work:
                    res = gen.generate(build_request(docs, work, variant))
                err = res.error
            except Exception as e:
                err = f'{type(e).__name__}: {e}'
            out = {f.name: f.content for f in res.file} if not err else {}
            for name, b in sorted(base[variant].items()):
                rel = name[len(PKGDIR):] if name.startswith(PKGDIR) else name
                if variant != 'std':
                    rel = variant + '/' + rel
                if origin == 'response':
                    rel = 'response-comment/' + rel
                if err or name not in out:
                    v = dict(compiles=False, error='generation failed: ' + err[:300] if err else 'module not emitted', warnings=0)
                elif hashlib.sha1(out[name].encode()).hexdigest() == b['sha']:
                    v = b['view']                      # byte-identical to the baseline module: same view
                else:
                    v = module_view(out[name])
                nwarn += v['warnings']
                sites = b['sites'][origin] or [None]
                for q in sites:
                    o = dict(ev='out_embed', compiles=v['compiles'], rest_same=v['compiles'] and v['skeleton'] == b['skeleton'],
                             hasdoc=q is not None, ndoc=0, words=[])
                    if v['compiles'] and q is not None:
                        ntok, val = v['docs'].get(q, (0, ''))
                        if origin == 'response':
                            val = returns_section(val)   # word-for-word against the Returns: section where there is one
                        o['ndoc'] = ntok; o['words'] = val.split()
                    traces.append(dict(fn='embed', events=[dict(ev='in_text', toks=toks), dict(ev='par_embed', origin=origin), o]))
                    descs.append(dict(keyfmt='embed:{cls}:' + rel, size=len(text), toks=toks, text=text, origin=origin, module=name,
                                      variant=variant, owner=q, compiles=v['compiles'], error=v.get('error', ''), ndoc=o['ndoc'],
                                      rest_same=o['rest_same'], warnings=v['warnings']))
                    if q is not None:
                        nt.append(f'embed:{origin}:{" ".join(toks)}:{rel}:{q}')
    res = _classify(traces, descs)
    res['nontrivial'] = nt
    res['syntax_warnings'] = nwarn
    return res


def part_embed(chk, quick, rnd, pool):
    docs, r = emit_cases('Text', 'Text.emit.docs.small.cfg' if quick else 'Text.emit.docs.full.cfg', deadlock=False)
    chk.add_tlc(r, 'Text input emission (docs)')
    if not quick:
        conv, r = emit_cases('Text', 'Text.emit.docs.conv.cfg', deadlock=False)
        chk.add_tlc(r, 'Text input emission (converter-path docs)')
        docs += [c for c in conv if c['conv']]
    if not docs:
        raise core.MachineryError('no docs emitted')
    # fixed corner docs through the converter route (each generation costs several converter process starts):
    # quick = the one-line  abc *gadgets* "abc"  at every origin, thorough = every corner text at every origin
    corners = emit_corners(chk)
    cdocs = [c for c in corners if not quick or ('mstar' in c['toks'] and 'nl' not in c['toks'] and 'blank' not in c['toks'])]
    if not cdocs:
        raise core.MachineryError('corner doc missing')
    docs += cdocs
    pcases, r = emit_cases('Text', 'Text.emit.params.cfg', deadlock=False)
    origins = [c['par']['origin'] for c in pcases if c['fn'] == 'embed']
    if sorted(origins) != sorted(ORIGINS):
        raise core.MachineryError(f'origins of the specification {origins} differ from the binding {ORIGINS}')
    units = [(c['toks'], c['text'], o) for c in docs for o in origins]
    rnd.shuffle(units)                              # balance converter-path (slow) cases over the jobs
    k = max(1, min(60, -(-len(units) // NPROC)))
    jobs = [units[i:i + k] for i in range(0, len(units), k)]
    base = (_BASE_FUTURE or pool.submit(compute_baseline)).result()
    if 'error' in base:
        raise core.MachineryError(base['error'])
    if 'broken' in base:
        # not a harness failure: with a harmless one-word comment at every origin the generator emits a module that
        # is not valid Python, so embedding cannot be judged against a baseline; reported under its own key
        rel = base['broken'][len(PKGDIR):] if base['broken'].startswith(PKGDIR) else base['broken']
        chk.violation(f'embed:baseline-invalid:{rel}',
                      f'with harmless comments {sorted(MARK.values())} the emitted module {base["broken"]} does not compile: '
                      f'{base["detail"]}; docstring embedding not evaluated', dict(module=base['broken'], detail=base['detail']))
        chk.extra['embedding'] = dict(skipped='baseline module does not compile')
        return
    base = base['files']
    agg = Agg(chk, 'embed')
    nwarn = 0
    for res in pool.map(_embed_job, [(base, j) for j in jobs]):
        agg.add(res)
        chk.nontrivial.update(res['nontrivial'])
        nwarn += res['syntax_warnings']
    classes = agg.finish()
    confirm_and_report(chk, classes, agg.ok_sample, 'embed', quick)
    chk.extra['embedding'] = dict(docs=len(docs), corner_docs=len(cdocs), origins=origins, generations=len(units), observations=agg.n,
                                  syntax_warnings_in_emitted_modules=nwarn)
    chk.sample(dict(fn='embed', toks=docs[-1]['toks'], text=docs[-1]['text'], origin='service'))


# ---------------------------------------------------------------------------------------------------
# part 1: the specification itself
MUTANTS = [  # (mutant, function, clause that must reject it)
    ('drop_word', 'wrap', 'words'), ('dup_word', 'wrap', 'words'), ('swap_words', 'wrap', 'words'),
    ('overlong', 'wrap', 'width'), ('nonempty_on_empty', 'wrap', 'empty'), ('raise_on_blank', 'wrap', 'raise'),
    ('no_quote_pad', 'rst', 'tail-quote'), ('drop_word', 'rst', 'words'), ('double_backslash', 'rst', 'words'),
    ('keep_trailing', 'fixws', 'trailing-blanks'), ('non_idempotent', 'fixws', 'idempotent'),
    ('eat_code_line', 'fixws', 'lines'), ('eat_indent', 'fixws', 'lines'), ('add_blank', 'fixws', 'blank-added'),
    ('no_final_nl', 'fixws', 'final-newline'), ('double_final_nl', 'fixws', 'final-newline'),
    ('verbatim', 'embed', 'compiles'),
]


def _mutant_run(args):
    cfg, mutant, fn = args
    c = re.sub(r'Mutant = "none"', f'Mutant = "{mutant}"', cfg)
    c = re.sub(r'Fns = \{[^}]*\}', 'Fns = {"%s"}' % fn, c)
    return tlc.run('Text', c, workers=2, deadlock=False, timeout=900, env=JVM)


def run_spec(quick):
    """TLC on the specification (runs in a side thread; accounting happens in account_spec on the main thread)"""
    with open(os.path.join(tlc.SPEC, 'Text.small.cfg')) as f:
        small = f.read()
    with ThreadPoolExecutor(9) as ex:
        main_run = ex.submit(tlc.run, 'Text', 'Text.small.cfg' if quick else 'Text.full.cfg', workers=6 if quick else 8,
                             deadlock=False, timeout=2400)
        muts = list(ex.map(_mutant_run, [(small, m, f) for m, f, _c in MUTANTS]))
        return main_run.result(), muts


def account_spec(chk, r, muts):
    chk.add_tlc(r, 'Text model check (reference observations satisfy every clause)')
    killed = []
    for (m, f, clause), rm in zip(MUTANTS, muts):
        chk.states += rm.distinct; chk.transitions += rm.generated
        v = re.findall(r'/\\ verdict = (\{[^\n]*\})', rm.out)
        verdict = v[-1] if v else ''
        if rm.violated != 'Inv_Post' or f'"{clause}"' not in verdict:
            raise core.MachineryError(f'specification mutant {m}/{f} was not rejected by clause {clause}: '
                                      f'violated={rm.violated} verdict={verdict}\n{rm.out[-1500:]}')
        killed.append(f'{m}/{f}: {verdict}')
    chk.tlc_runs.append(dict(label='Text mutants (each must violate Inv_Post by the named clause)', runs=len(muts), killed=killed))
    chk.extra['spec_mutants_rejected'] = len(killed)


# ---------------------------------------------------------------------------------------------------
def main(chk, args):
    quick = chk.tier == 'quick'
    rnd = random.Random(chk.seed)
    gen.ensure_env()
    with ProcessPoolExecutor(NPROC) as pool, ThreadPoolExecutor(1) as side, ThreadPoolExecutor(10) as pre:
        pool.submit(int).result()                          # fork every worker before any thread exists
        global _BASE_FUTURE
        _BASE_FUTURE = pool.submit(compute_baseline)       # baseline generations run beside the first parts
        prefetch(pre, quick, chk.seed)
        spec = side.submit(run_spec, quick)                # TLC on the specification runs beside the binding
        walls = chk.extra.setdefault('wall_parts_s', {})
        for name, part in (('wrap_rst', part_text), ('fix_whitespace', part_fix), ('embed', part_embed)):
            t0 = time.time()
            part(chk, quick, rnd, pool)
            walls[name] = round(time.time() - t0, 1)
            print(f'[C20] {name}: {walls[name]} s', flush=True)
        t0 = time.time()
        account_spec(chk, *spec.result())
        walls['spec_wait'] = round(time.time() - t0, 1)
    t = os.times()                      # after the pool is gone: includes the workers and their TLC processes
    chk.extra['cpu_s'] = round(t.user + t.system + t.children_user + t.children_system, 1)
    chk.exhaustive = not quick     # quick: parameter tuples are sampled for texts of 3+ tokens
    chk.rule = ('observations = one call of the real code each: (text, parameter tuple) for wrap and rst - texts are ALL token '
                'strings up to 3 (quick) / 4 (thorough) tokens over the 16-token alphabet of Text.tla plus TLC random walks of '
                '5..8 tokens, crossed with every parameter tuple of the specification (offset < width; quick tier: every tuple for texts '
                'up to 2 tokens or without words, 3 seeded tuples otherwise); (layout, ending) for '
                'fix_whitespace - all layouts up to 2 items with every gap (thorough: 3 items over 4 gaps) plus random walks of '
                '4..6 items, and every .py file emitted for two sample APIs as handed to the formatter by the generator plus six '
                'perturbations; (doc, origin, module, docstring owner) for embedding.  distinct non-trivial = distinct '
                '(function, text) with at least two words; layouts with a gap >= 2 or trailing blanks or a multi-line string; '
                'emitted sources the formatter changes; (doc, origin, owner) triples where the owner carries the comment')
    chk.assumptions += [
        'width is counted in characters; a tab counts as ONE column (reading most favourable to the code)',
        'a line that consists of a single word (plus indentation) is exempt from the width bound',
        'rst(): only the fast path (wrap) and the stand-in converter (/verif/tools/pandoc copies stdin to stdout) are exercised; '
        'texts taking the converter path are run on a seeded sample with the template-default parameters only; '
        'nothing is claimed about the output of a real pandoc',
        'trailing blanks = trailing SPACE characters; a whitespace-only line counts as trailing blanks',
        'AST equality is computed by the Python projection (ast.dump with all whitespace removed from str constants) and enters '
        'TLA+ as a boolean observation; sources that do not parse are outside the quantifier',
        'docstring safety is judged on compile() + ast of the emitted modules under the running interpreter (CPython 3.12); '
        '"nothing swallowed" = AST without docstrings equals that of the same API with harmless marker comments',
        'SyntaxWarnings (invalid escape sequences in non-raw docstrings) are counted in the evidence but are not violations',
        'the cross product text x parameter tuple is formed in Python from the two sets emitted by TLC (Init x ChooseParams is a plain product)',
    ]


main.level = 'model_checking'
