"""EXT_RESTCALL (specification growth, DESIGN 5.4/5.6; not a listed property): interceptor ordering and HTTP error mapping of
the emitted REST transport.  spec: spec/RestCall.tla (9 invariants, liveness, 7 mutants) incl. the data flow through the hooks (the request the pre-hook returns is the one sent; post's result reaches post_with_metadata together with the reply headers; its result reaches the caller); all 192 cases replayed."""
import os

from .. import callrun, core, gen, pipeline, tlc


def main(chk, args):
    r = tlc.run('RestCall', 'RestCall.cfg', deadlock=False)
    chk.add_tlc(r, 'RestCall model check')
    for m in ('ignore_pre_result', 'swallow_error', 'post_order', 'ignore_pre_request', 'drop_post_result', 'drop_postm_result', 'no_headers'):
        rm = tlc.run('RestCall', open(os.path.join(tlc.SPEC, 'RestCall.cfg')).read().replace('"none"', f'"{m}"'), deadlock=False)
        if rm.ok:
            raise core.MachineryError(f'RestCall mutant {m} not rejected')
    cases, r2 = tlc.emit_cases('RestCall', 'RestCall.emit.cfg', deadlock=False)
    chk.add_tlc(r2, 'RestCall case emission')
    chk.exhaustive = True
    api = callrun.carrier_api()
    with gen.scratch() as work:
        req, res = gen.generate_api(api, dict(transport=['grpc', 'rest'], snippets=False), work)
        root = gen.materialise(res, os.path.join(work, 'out'))
        for fdp in req.proto_file:
            if fdp.name.startswith('other/'):
                pipeline.write_pb2(fdp, root)
        ok, out, err = gen.run_driver('harness.drivers.restcall', root, dict(module=callrun.MODULE, cases=[dict(i=i, **{k: c[k] for k in ('kind', 'status', 'preAddsMd', 'preEdits', 'postEdits', 'postmEdits')}) for i, c in enumerate(cases)]))
        if not ok:
            raise core.MachineryError('restcall driver failed:\n' + err)
    for o in out['obs']:
        c = cases[o['i']]; e = c['expect']
        k = f"{c['kind']}/{c['status']}/pre_md={c['preAddsMd']}/edits={'pre ' * c['preEdits']}{'post ' * c['postEdits']}{'postm' * c['postmEdits']}"
        chk.case(k, nontrivial=True)
        diffs = [f'{f}: observed {o[f]!r}, predicted {e[f]!r}' for f in ('hooks', 'sent', 'sentMd', 'outcome', 'sentReq', 'postmSaw', 'postmHdr', 'got') if o[f] != e[f]]
        if diffs:
            chk.violation(k, '; '.join(diffs), dict(case=c, obs=o))
    chk.rule = 'method kind {unary, void, server streaming} x HTTP status (200 and 7 error codes) x interceptor adds metadata or not x pre-hook replaces the request or not x (unary) post / post_with_metadata replace the response or not: all 192 cases'
    chk.sample(dict(case=cases[0]))


main.level = 'model_checking'
