"""C12 - reserved-word and colliding names are disambiguated without altering the wire.

spec      : spec/Names.tla - the finite case space (word x position), predicted surface name (word + "_") and wire name (word),
            injectivity of the suffixing; word lists are read from /repo at run time and must equal the checked-in lists.
spec->code: one generated API per position packs ALL words of that position (one message/method per word); if the packed API does
            not generate/import, it is bisected to single-word APIs so the failing (word, position) pairs are named exactly.
            For every case: the surface attribute / parameter / method / module exists under word_ and is usable, and a call
            through the loopback gRPC / HTTP servers carries the ORIGINAL name on the wire (decoded with input descriptors, JSON
            keys, URL path, routing key, RPC path).
code->spec: observations {word, position, surface_seen, wire_seen} validated by spec/NamesTrace.tla.
Module-name collisions across packages are checked with a dedicated API (two imported modules sharing a base name).
"""
import json
import keyword
import os
from concurrent.futures import ProcessPoolExecutor

from .. import absapi, core, gen, pipeline, tlc

PKG = 'acme.nm.v1'
MODULE = 'acme.nm_v1'


def word_lists():
    from gapic.utils import RESERVED_NAMES
    return sorted(RESERVED_NAMES), sorted(keyword.kwlist)


def mc_constants(reserved, keywords):
    q = lambda ws: '{' + ', '.join('"%s"' % w for w in ws) + '}'
    return ('---- MODULE MC_Names ----\nEXTENDS Names\nMC_Reserved == %s\nMC_Keywords == %s\n====\n' % (q(reserved), q(keywords)))


def cfg(mutant='none', emit=False):
    return ('CONSTANTS Reserved <- MC_Reserved Keywords <- MC_Keywords Mutant = "%s"\nSPECIFICATION Spec\n' % mutant +
            ('INVARIANT Emit\n' if emit else 'INVARIANT Inv_OneUnderscore\nINVARIANT Inv_WireOriginal\nINVARIANT Inv_Injective\n'
                                             'INVARIANT Inv_NoReclash\nPROPERTY Live\n'))


def cap(w):
    return w[:1].upper() + w[1:]


def build_api(position, words):
    """one message + method per word for this position."""
    msgs = [dict(name='Out', fields=[dict(name='name')])]
    methods = []
    files = []
    for i, w in enumerate(words):
        M = f'M{i}'
        http = [dict(verb='post', uri=f'/v1/m{i}', body='*')]
        sigs = []
        routing = None
        name = f'Call{i}'
        inner = dict(name=f'In{i}', fields=[dict(name=w), dict(name='other')])
        if position == 'top_field':
            # REQUIRED and travelling as a query parameter over REST (no body): the JSON key on the wire must be the original name
            req = dict(name=M, fields=[dict(name=w, required=True), dict(name='plain')])
            http = [dict(verb='get', uri=f'/v1/m{i}')]
        elif position == 'nested_field':
            msgs.append(inner)
            req = dict(name=M, fields=[dict(name='inner', type=f'In{i}'), dict(name='plain')])
        elif position == 'flattened_param':
            req = dict(name=M, fields=[dict(name=w), dict(name='plain')]); sigs = [f'{w},plain']
        elif position == 'flattened_dotted':
            msgs.append(inner)
            req = dict(name=M, fields=[dict(name='inner', type=f'In{i}'), dict(name='plain')]); sigs = [f'plain,inner.{w},inner.other']
        elif position == 'http_path_sibling':
            # a variable that merely STARTS with the word stands before the variable named by the word
            req = dict(name=M, fields=[dict(name=f'{w}_id'), dict(name=w), dict(name='plain')])
            http = [dict(verb='post', uri='/v1/m%d/{%s_id=*}/things/{%s=items/*}' % (i, w, w), body='*')]
        elif position == 'http_path_head':
            msgs.append(inner)
            req = dict(name=M, fields=[dict(name=w, type=f'In{i}'), dict(name='plain')])
            http = [dict(verb='post', uri='/v1/m%d/{%s.other=items/*}' % (i, w), body='*')]
        elif position == 'http_body_additional':
            msgs.append(inner)
            req = dict(name=M, fields=[dict(name=w, type=f'In{i}'), dict(name='plain')])
            http = [dict(verb='post', uri='/v1/m%d/{plain=first/*}' % i, body=w), dict(verb='post', uri='/v1/m%d/{plain=second/*}' % i, body=w)]
        elif position == 'http_path_top':
            req = dict(name=M, fields=[dict(name=w), dict(name='plain')]); http = [dict(verb='post', uri='/v1/m%d/{%s=items/*}' % (i, w), body='*')]
        elif position == 'http_path_dotted':
            msgs.append(inner)
            req = dict(name=M, fields=[dict(name='inner', type=f'In{i}'), dict(name='plain')])
            http = [dict(verb='post', uri='/v1/m%d/{inner.%s=items/*}' % (i, w), body='*')]
        elif position == 'http_body':
            msgs.append(inner)
            req = dict(name=M, fields=[dict(name=w, type=f'In{i}'), dict(name='plain')])
            http = [dict(verb='post', uri=f'/v1/m{i}', body=w)]
        elif position == 'routing_field':
            req = dict(name=M, fields=[dict(name=w), dict(name='plain')]); routing = [dict(field=w)]
        elif position == 'routing_template':
            req = dict(name=M, fields=[dict(name=w), dict(name='plain')]); routing = [dict(field=w, tmpl='{%s=items/*}' % w)]
        elif position == 'rpc_name':
            req = dict(name=M, fields=[dict(name='plain')]); name = cap(w)
        elif position == 'proto_file':
            req = dict(name=M, fields=[dict(name='plain')])
            files.append(dict(name=f'acme/nm/v1/{w}.proto', package=PKG, messages=[dict(name=f'T{i}', fields=[dict(name='x')])]))
            req['fields'].append(dict(name='t', type=f'T{i}'))
        msgs.append(req)
        m = dict(name=name, **{'in': M, 'out': 'Out'}, http=http, sigs=sigs)
        if routing is not None:
            m['routing'] = routing
        methods.append(m)
    main = dict(name='acme/nm/v1/svc.proto', package=PKG, messages=msgs, services=[dict(name='Nm', methods=methods)])
    return dict(files=files + [main])


def _drive(args):
    position, words, idx_base = args
    api = build_api(position, words)
    with gen.scratch() as work:
        try:
            req, res = gen.generate_api(api, dict(transport=['grpc', 'rest'], snippets=False), work)
        except Exception as e:
            return dict(position=position, words=words, error=f'generation failed: {type(e).__name__}: {e}'[:300])
        root = gen.materialise(res, os.path.join(work, 'out'))
        ok, out, err = gen.run_driver('harness.drivers.names', root, dict(api=api, module=MODULE, position=position, words=words), timeout=900)
        if not ok:
            last = [l for l in err.strip().splitlines() if l.strip()][-1:] or ['?']
            return dict(position=position, words=words, error='import/driver failed: ' + last[0][:300])
        return dict(position=position, words=words, obs=out['obs'])


def collisions_case(chk):
    """two imported modules share the base name `common` (package module vs dependency-package module)."""
    dep = dict(name='other/dep/v1/common.proto', package='other.dep.v1', target=False, imports=[],
               messages=[dict(name='Shared', fields=[dict(name='x')])])
    own = dict(name='acme/nm/v1/common.proto', package=PKG, messages=[dict(name='Local', fields=[dict(name='y')])])
    main = dict(name='acme/nm/v1/svc.proto', package=PKG,
                messages=[dict(name='Req', fields=[dict(name='a', type='.other.dep.v1.Shared'), dict(name='b', type='Local')]),
                          dict(name='Out', fields=[dict(name='name'), dict(name='s', type='.other.dep.v1.Shared'), dict(name='l', type='Local')])],
                services=[dict(name='Nm', methods=[dict(name='Mix', **{'in': 'Req', 'out': 'Out'}, http=[dict(verb='post', uri='/v1/mix', body='*')],
                                                        sigs=['a,b'])])])
    api = dict(files=[dep, own, main])
    with gen.scratch() as work:
        try:
            req, res = gen.generate_api(api, dict(transport=['grpc', 'rest'], snippets=False), work)
        except Exception as e:
            chk.violation('collision:module-common:generation', f'{type(e).__name__}: {e}'[:300]); return
        root = gen.materialise(res, os.path.join(work, 'out'))
        for fdp in req.proto_file:
            if fdp.name.startswith('other/'):
                pipeline.write_pb2(fdp, root)
        imp = pipeline.import_probe(root, MODULE)
        chk.case('collision:module-common', nontrivial=True)
        if not imp['ok']:
            chk.violation('collision:module-common:import', f"{imp['errors'][:2]}")
        src = [f.content for f in res.file if f.name.endswith('services/nm/client.py')][0]
        # both modules must be imported under distinct local names
        import re
        names = re.findall(r'^from \S+ import (common\S*)(?: as (\S+))?', src, re.M)
        local = [a or n for n, a in names]
        if len(local) >= 2 and len(set(local)) != len(local):
            chk.violation('collision:module-common:alias', f'two modules imported under the same local name: {names}')


def collisions_proto_plus_deps(chk):
    """same collision, but the dependency is itself a proto-plus library (option proto-plus-deps): both `common` modules
    must be imported under distinct package-derived aliases and the library must import and work."""
    dep_api = dict(files=[dict(name='acme/basics/v1/common.proto', package='acme.basics.v1',
                               messages=[dict(name='Label', fields=[dict(name='text')]), dict(name='Ping', fields=[dict(name='x')])],
                               services=[dict(name='Basics', methods=[dict(name='DoPing', **{'in': 'Ping', 'out': 'Ping'},
                                                                            http=[dict(verb='post', uri='/v1/ping', body='*')])])])])
    # the dependency library also has a file named by a client control parameter (request.proto -> module request_)
    dep_api['files'].insert(0, dict(name='acme/basics/v1/request.proto', package='acme.basics.v1',
                                    messages=[dict(name='Ask', fields=[dict(name='q')])]))
    dep_file = dict(dep_api['files'][1], target=False, imports=[])
    dep_file = {k: v for k, v in dep_file.items() if k != 'services'}
    dep_req_file = dict(dep_api['files'][0], target=False, imports=[])
    own = dict(name='acme/nm/v1/common.proto', package=PKG, messages=[dict(name='Local', fields=[dict(name='y')])])
    main_ = dict(name='acme/nm/v1/svc.proto', package=PKG,
                 messages=[dict(name='Req', fields=[dict(name='a', type='.acme.basics.v1.Label'), dict(name='b', type='Local')]),
                           dict(name='Out', fields=[dict(name='name'), dict(name='s', type='.acme.basics.v1.Label'), dict(name='l', type='Local')])],
                 services=[dict(name='Nm', methods=[dict(name='Mix', **{'in': 'Req', 'out': 'Out'}, http=[dict(verb='post', uri='/v1/mix', body='*')])])])
    # variant 'split': the two `common` modules are used by DIFFERENT messages of the file (the collision is a property of the file)
    split_ = dict(name='acme/nm/v1/svc.proto', package=PKG,
                  messages=[dict(name='Req', fields=[dict(name='a', type='.acme.basics.v1.Label')]),
                            dict(name='Loc', fields=[dict(name='b', type='Local')]),
                            dict(name='Out', fields=[dict(name='name'), dict(name='loc', type='Loc')])],
                  services=[dict(name='Nm', methods=[dict(name='Mix', **{'in': 'Req', 'out': 'Out'}, http=[dict(verb='post', uri='/v1/mix', body='*')])])])
    for variant, mainfile, code_body in (
            ('', main_, "r = nm_v1.Req(a=dep_common.Label(text='t'), b=nm_v1.Local(y='z'))\n"
                         "b = nm_v1.Req.serialize(r); r2 = nm_v1.Req.deserialize(b); assert r2.a.text == 't' and r2.b.y == 'z', r2\nprint('ok')"),
            (':split', split_, "r = nm_v1.Req(a=dep_common.Label(text='t')); l = nm_v1.Loc(b=nm_v1.Local(y='z'))\n"
                               "assert nm_v1.Req.deserialize(nm_v1.Req.serialize(r)).a.text == 't' and nm_v1.Loc.deserialize(nm_v1.Loc.serialize(l)).b.y == 'z'\nprint('ok')")):
        _ppd_variant(chk, variant, dep_api, dict(files=[dep_file, own, mainfile]), code_body)
    ctrl_ = dict(name='acme/nm/v1/svc.proto', package=PKG,
                 messages=[dict(name='Req', fields=[dict(name='ask', type='.acme.basics.v1.Ask')]), dict(name='Out', fields=[dict(name='name')])],
                 services=[dict(name='Nm', methods=[dict(name='Mix', **{'in': 'Req', 'out': 'Out'}, http=[dict(verb='post', uri='/v1/mix', body='*')])])])
    _ppd_variant(chk, ':control-named-file', dep_api, dict(files=[dep_req_file, dep_file, ctrl_]),
                 "from acme.basics_v1.types import request_ as dep_request\nr = nm_v1.Req(ask=dep_request.Ask(q='x'))\n"
                 "assert nm_v1.Req.deserialize(nm_v1.Req.serialize(r)).ask.q == 'x'\nprint('ok')")


def _ppd_variant(chk, variant, dep_api, api, code_body):
    chk.case('collision:proto-plus-deps' + variant, nontrivial=True)
    with gen.scratch() as work:
        try:
            _, dres = gen.generate_api(dep_api, dict(transport=['grpc'], snippets=False), work)
            req, res = gen.generate_api(api, dict(transport=['grpc', 'rest'], snippets=False, proto_plus_deps='acme.basics.v1'), work)
        except Exception as e:
            chk.violation('collision:proto-plus-deps' + variant + ':generation', f'{type(e).__name__}: {e}'[:300]); return
        root = gen.materialise(res, os.path.join(work, 'out'))
        gen.materialise(dres, os.path.join(work, 'depout'))
        # both emitted trees share the `acme` namespace: merge the dependency tree into the main one
        import shutil
        shutil.copytree(os.path.join(work, 'depout', 'acme', 'basics_v1'), os.path.join(root, 'acme', 'basics_v1'))
        imp = pipeline.import_probe(root, MODULE)
        if not imp['ok']:
            chk.violation('collision:proto-plus-deps' + variant + ':import', f"{imp['errors'][:2]}")
            return
        code = ("import sys; sys.path.insert(0, %r)\nfrom acme import nm_v1\nfrom acme.basics_v1.types import common as dep_common\n" % root) + code_body
        import subprocess
        p = subprocess.run([gen.PY, '-W', 'ignore', '-c', code], capture_output=True, text=True, cwd=root)
        if p.returncode != 0:
            chk.violation('collision:proto-plus-deps' + variant + ':use', p.stderr.strip().splitlines()[-1][:300] if p.stderr.strip() else 'failed')


def main(chk, args):
    quick = chk.tier == 'quick'
    reserved, keywords = word_lists()
    extra = {'MC_Names.tla': mc_constants(reserved, keywords)}
    r = tlc.run('MC_Names', cfg(), deadlock=False, extra_files=extra, timeout=600)
    chk.add_tlc(r, 'Names model check')
    for mut in ('double_suffix', 'wire_suffixed'):
        rm = tlc.run('MC_Names', cfg(mut), deadlock=False, extra_files=extra, timeout=600)
        chk.tlc_runs.append(dict(label=f'Names mutant {mut}', **rm.summary()))
        if rm.ok:
            raise core.MachineryError(f'spec mutant {mut} not rejected')
    cases, r2 = tlc.emit_cases('MC_Names', cfg(emit=True), deadlock=False, extra_files=extra, timeout=600)
    chk.add_tlc(r2, 'Names case emission')
    chk.exhaustive = True
    by_pos = {}
    for c in cases:
        by_pos.setdefault(c['position'], []).append(c['word'])
    jobs = [(p, sorted(ws), 0) for p, ws in sorted(by_pos.items())]
    if not quick:
        # thorough: additionally one API per (word, position)
        jobs += [(p, [w], 0) for p, ws in sorted(by_pos.items()) for w in sorted(ws)]
    with ProcessPoolExecutor(14) as ex:
        results = list(ex.map(_drive, jobs))
    # bisect packed APIs that failed as a whole
    redo = []
    for r_ in results:
        if r_.get('error') and len(r_['words']) > 1:
            redo += [(r_['position'], [w], 0) for w in r_['words']]
    if redo:
        with ProcessPoolExecutor(14) as ex:
            results += list(ex.map(_drive, redo))
    traces = []
    seen = set()
    for r_ in results:
        if r_.get('error'):
            if len(r_['words']) == 1:
                k = f"{r_['position']}:{r_['words'][0]}"
                if k not in seen:
                    seen.add(k); chk.case(k, nontrivial=True)
                    chk.violation(k, r_['error'], dict(position=r_['position'], word=r_['words'][0]))
            continue
        for o in r_['obs']:
            k = f"{o['position']}:{o['word']}"
            packed = len(r_['words']) > 1
            if k in seen and packed:
                continue
            if k not in seen:
                chk.case(k, nontrivial=True); seen.add(k)
            if o.get('problems'):
                chk.violation(k, '; '.join(o['problems'][:4]), dict(obs=o))
            traces.append((k, dict(word=o['word'], position=o['position'], surface=o.get('surface_seen', ''), wire=o.get('wire_seen', ''))))
    accepted, rejected, runs = tlc.validate_all('MC_NamesTrace', 'CONSTANTS Reserved <- MC_Reserved Keywords <- MC_Keywords Mutant = "none"\n'
                                                'SPECIFICATION TSpec\nCONSTRAINT Progress\nPOSTCONDITION Accepted\nCHECK_DEADLOCK FALSE\n',
                                                [t for _, t in traces], timeout=900, max_rejects=30,
                                                extra_files={'MC_NamesTrace.tla': mc_constants(reserved, keywords).replace('MODULE MC_Names', 'MODULE MC_NamesTrace').replace('EXTENDS Names', 'EXTENDS NamesTrace')})
    for r3 in runs:
        chk.states += r3.distinct; chk.transitions += r3.generated
    chk.tlc_runs.append(dict(label='NamesTrace batch', runs=len(runs), accepted=accepted, rejected=len(rejected)))
    chk.traces += accepted
    for idx, t, info in rejected:
        chk.violation('trace:' + traces[idx][0], f'NamesTrace rejected the observation {t}: {info}')
    collisions_case(chk)
    collisions_proto_plus_deps(chk)
    chk.rule = ('cases = every (word, position) of Names.tla: words = RESERVED_NAMES U keyword.kwlist (read from /repo), positions = top-level '
                'field, nested field, flattened parameter, http path variable (top-level, dotted), http body, routing field, rpc name, proto '
                'file name (+ control parameters) - enumerated exhaustively; plus a module-name collision across packages')
    for k, t in traces[:3]:
        chk.sample(t)
    chk.assumptions += ['capitalised keywords False/None/True are not used as RPC or proto file names (upper-case file names are finding F15)',
                        'a packed API that fails as a whole is bisected into single-word APIs']
    chk.extra['words'] = len(reserved)


main.level = 'model_checking'
