"""C03 - gRPC calls reach the right RPC with the caller's request and return the reply.

spec      : spec/Call.tla (Inv_ExactlyOneCall, Inv_PathArity, Inv_Payload, Inv_Reply; forms msg/dict/none equivalent), liveness.
spec->code: TLC-emitted cases (method arity x request form x request valuation x reply script x {sync, asyncio}) replayed through
            the emitted clients behind the loopback gRPC server; path, stub arity, decoded payload and returned values compared.
code->spec: recorded sent/return/raise events validated by spec/CallTrace.tla (a second channel call has no enabled action).
"""
from .. import callrun


def main(chk, args):
    quick = chk.tier == 'quick'
    sel = lambda c: c['transport'] in ('grpc', 'grpc_asyncio') and c['form'] in ('msg', 'dict', 'none')
    cases = callrun.get_cases(chk, quick, chk.seed, select=sel, n_quick=2500)
    callrun.check(chk, cases, 'C03')
    chk.rule = ('cases = final states of Call.tla restricted to gRPC transports and request forms msg/dict/omitted: 9 methods (unary, void, '
                'server/client/bidi streaming, dependency-package request) x valuations (<=2 set fields, 2 variants) x reply scripts; '
                'non-trivial = some field set or reply count != 1; distinct by (method, transport, form, valuation, reply count)')
    chk.assumptions += ['abstract valuations: two concrete values per field (harness/callrun.py VALUES); payloads decoded with input descriptors',
                        'the recording channel patches the multicallable factories of a real grpc channel']


main.level = 'model_checking'
