"""EXT_FIXUP (specification growth, registered in no property): the emitted keyword fix-up script
(scripts/fixup_<name>_<version>_keywords.py, class <Name>CallTransformer.leave_Call, fix_files) rewrites calls of the legacy
flattened surface into request-object calls without changing what they mean.

spec      : spec/Fixup.tla - a rewriting machine, one action per step of leave_Call (Lookup, SplitArgs, AlreadyFixed,
            SplitControl, TakePositional, BuildRequest, EmitCall; Again = the script run over its own output).  The properties
            are Python's binding rules for `def m(self, p1..pn, retry, timeout, metadata)` applied to the ORIGINAL call:
            Inv_FieldsByName / Inv_ControlKept / Inv_NothingLost / Inv_Shape (= MeaningPreserved), Inv_Idempotent,
            Inv_Untouched, Inv_EvalOrderFieldsFirst / Inv_EvalOrderCanonical (evaluation order; the strict form is not
            achievable by a request-object call and is shown NOT to hold), liveness; 9 mutants, each rejected by its invariant.
spec->code: ONE carrier library from the real generator (a 4-field request whose REQUIRED field is declared last, so that the
            table order differs from the declaration order, and a 3-field one); every TLC case becomes a line of Python
            (`client.alpha_call(a1, a2, page_token=a3, retry=a4)`), one source file per call-shape class; the real emitted
            transformer is imported from the materialised script and run over each file with libcst, twice; input, output
            and second output are read back with `ast` and compared with the predicted calls.
code->spec: spec/FixupTrace.tla validates one trace per file (two events per call: out, again); three corrupted copies of
            accepted traces ride along and MUST be rejected.
fix_files : run once on a small directory tree (files copied, non-.py files ignored, output parses, same rewriting).

Violation keys name the call-shape class:  <class>:np=<#params>:npos=<#positionals>:kw=<field keywords in source order>
with class in {no-kwargs, kwargs-in-order, kwargs-skip, kwargs-out-of-order, has-request, unknown-method, plain-call}; a
wrong request dict is keyed by the class alone, any other aspect by  <aspect>:<class>  (touched, shape, order, control,
not-idempotent, parse, other);  trace:<class>  for a file FixupTrace rejected;  fix_files:<aspect>."""
import ast
import importlib.util
import os
import pathlib
import random

from .. import core, gen, pipeline, tlc

PKG = 'acme.fix.v1'
# declaration order of the two request messages of the carrier (field numbers deliberately follow neither order)
DECL = {'alpha_call': ['name', 'page_size', 'page_token', 'filter'], 'beta_call': ['name', 'payload', 'note']}
REQUIRED = {'alpha_call': 'filter', 'beta_call': 'note'}
CTRL = ('retry', 'timeout', 'metadata')
ACTIONS = ('Lookup', 'SplitArgs', 'AlreadyFixed', 'SplitControl', 'TakePositional', 'BuildRequest', 'EmitCall', 'Again')
# mutant -> the invariant of Fixup.tla that must reject it (checked alone, so that every clause is shown to bite)
MUTANTS = (('kwargs_by_position', 'Inv_FieldsByName'), ('ctrl_dropped', 'Inv_ControlKept'), ('not_idempotent', 'Inv_Idempotent'),
           ('unknown_rewritten', 'Inv_Untouched'), ('plain_rewritten', 'Inv_Untouched'),
           ('extra_positional_ignored', 'Inv_NothingLost'), ('ctrl_misnamed', 'Inv_ControlKept'),
           ('sorted_by_table', 'Inv_EvalOrderFieldsFirst'), ('ctrl_first', 'Inv_EvalOrderFieldsFirst'))
MUTANT_SCOPE = 'NPs = {3} MaxPos = 4 MaxArgs = 4 MaxArgsOther = 1 MaxKwFixed = 1'
TLC_WORKERS = 4
# short runs: a JVM that does not wait for the optimising compiler starts (and ends) sooner on a loaded machine
FAST_JVM = ['-Xmx2g', '-XX:TieredStopAtLevel=1']


def carrier_api():
    msgs = [dict(name='Item', fields=[dict(name='name'), dict(name='id', type='int32')]),
            dict(name='Req4', fields=[dict(name='name', number=7), dict(name='page_size', type='int32', number=3),
                                      dict(name='page_token', number=5), dict(name='filter', required=True, number=1)]),
            dict(name='Req3', fields=[dict(name='name', number=4), dict(name='payload', type='Item', number=2),
                                      dict(name='note', required=True, number=9)])]
    methods = [dict(name='AlphaCall', **{'in': 'Req4', 'out': 'Item'}, http=[dict(verb='post', uri='/v1/{name=items/*}:alpha', body='*')]),
               dict(name='BetaCall', **{'in': 'Req3', 'out': 'Item'}, http=[dict(verb='post', uri='/v1/{name=items/*}:beta', body='*')])]
    return dict(files=[dict(name='acme/fix/v1/fix.proto', package=PKG, messages=msgs, services=[dict(name='Fixer', methods=methods)])])


def load_script(root):
    """the emitted script, imported from the materialised file -> (module, transformer class, source)."""
    d = os.path.join(root, 'scripts')
    names = sorted(f for f in os.listdir(d) if f.startswith('fixup_') and f.endswith('_keywords.py')) if os.path.isdir(d) else []
    if len(names) != 1:
        raise core.MachineryError(f'expected exactly one scripts/fixup_*_keywords.py, found {names}')
    path = os.path.join(d, names[0])
    spec = importlib.util.spec_from_file_location('_verif_emitted_fixup', path)
    mod = importlib.util.module_from_spec(spec)
    spec.loader.exec_module(mod)
    classes = [v for k, v in vars(mod).items() if isinstance(v, type) and k.endswith('CallTransformer')]
    if len(classes) != 1 or not callable(getattr(mod, 'fix_files', None)):
        raise core.MachineryError(f'{names[0]}: transformer class / fix_files not found')
    return mod, classes[0], open(path).read()


# ---- concretisation: abstract names of the spec -> names of the carrier ------------------------------------------------------
def namer(np_, table):
    meth = [m for m, ps in sorted(table.items()) if len(ps) == np_][0]
    names = {'m': meth, 'other': 'other_call'}
    names.update({f'p{i + 1}': p for i, p in enumerate(table[meth])})
    return meth, names


def conc(shape, names):
    f = lambda x: names.get(x, x)
    return dict(attr=shape['attr'], name=f(shape['name']), pos=list(shape['pos']), kw=[[f(k), v] for k, v in shape['kw']],
                dict=[[f(k), v] for k, v in shape['dict']])


def render(shape):
    """a call shape as Python text (the dict literal "D" is written out)."""
    d = '{' + ', '.join(f'{k!r}: {v}' for k, v in shape['dict']) + '}'
    args = list(shape['pos']) + [f"{k}={d if v == 'D' else v}" for k, v in shape['kw']]
    return ('client.' if shape['attr'] else '') + shape['name'] + '(' + ', '.join(args) + ')'


# ---- projection: Python text -> call shape (purely syntactic) -----------------------------------------------------------------
def _id(e):
    if isinstance(e, ast.Name):
        return e.id
    if isinstance(e, ast.Dict):
        return 'D?'        # a dict that is not THE value of a keyword of the call
    return 'expr:' + ast.dump(e)[:60]


def project(stmt):
    if not (isinstance(stmt, ast.Expr) and isinstance(stmt.value, ast.Call)):
        raise ValueError('not a call statement: ' + ast.dump(stmt)[:80])
    c = stmt.value
    if isinstance(c.func, ast.Attribute):
        attr, name = True, c.func.attr
    elif isinstance(c.func, ast.Name):
        attr, name = False, c.func.id
    else:
        raise ValueError('unexpected callee: ' + ast.dump(c.func)[:80])
    kw, d, seen = [], [], False
    for k in c.keywords:
        if isinstance(k.value, ast.Dict) and not seen:
            seen = True
            d = [[key.value if isinstance(key, ast.Constant) else _id(key), _id(v)] for key, v in zip(k.value.keys, k.value.values)]
            kw.append([k.arg or '**', 'D'])
        else:
            kw.append([k.arg or '**', _id(k.value)])
    return dict(attr=attr, name=name, pos=[_id(a) for a in c.args], kw=kw, dict=d)


def project_module(text, n):
    body = ast.parse(text).body
    if len(body) != n:
        raise ValueError(f'{len(body)} statements, {n} expected')
    return [project(s) for s in body]


# ---- classes ------------------------------------------------------------------------------------------------------------------
def shape_class(c):
    call = c['call']; n = len(call['pos'])
    fkw = [k for k, _ in call['kw'] if k not in CTRL and k != 'request']
    if c['kind'] == 'plain':
        cls = 'plain-call'
    elif c['kind'] == 'unknown':
        cls = 'unknown-method'
    elif any(k == 'request' for k, _ in call['kw']):
        cls = 'has-request'
    elif not fkw:
        cls = 'no-kwargs'
    else:
        idx = [int(k[1:]) for k in fkw]
        cls = ('kwargs-out-of-order' if idx != sorted(idx) else
               'kwargs-skip' if idx != list(range(n + 1, n + 1 + len(idx))) else 'kwargs-in-order')
    return f"{cls}:np={c['np']}:npos={n}:kw={'+'.join(fkw) or '-'}"


def aspects(c, e_first, e_again, o_in, o_first, o_again):
    """spec -> code: [(aspect, detail)];  aspect '' = the request dict binds a parameter to another argument."""
    d = []
    if not c['rewritten']:
        if o_first != o_in:
            d.append(('touched', 'a call that is not ours / was fixed before has been changed'))
    elif ((o_first['attr'], o_first['name']) != (e_first['attr'], e_first['name']) or o_first['pos']
          or [p for p in o_first['kw'] if p[0] == 'request'] != [['request', 'D']]):
        d.append(('shape', 'not a call of the same method with exactly one request={..} argument and no positionals'))
    else:
        od, ed = o_first['dict'], e_first['dict']
        if sorted(od) != sorted(ed):
            want = dict(ed); got = dict(od)
            wrong = [f"request[{k!r}] is {got.get(k, '(absent)')}, the call binds {want.get(k, '(nothing)')}"
                     for k in sorted(set(want) | set(got)) if want.get(k) != got.get(k)]
            d.append(('', '; '.join(wrong) + (' (duplicate keys)' if len(got) != len(od) else '')))
        elif od != ed:
            d.append(('order', f'dict entries in the order {[k for k, _ in od]}, predicted {[k for k, _ in ed]}'))
        oc = [p for p in o_first['kw'] if p[0] != 'request']; ec = [p for p in e_first['kw'] if p[0] != 'request']
        if sorted(oc) != sorted(ec):
            d.append(('control', f'control keywords {oc}, the call binds {ec}'))
        elif o_first['kw'] != e_first['kw']:
            d.append(('order', f"keywords in the order {[k for k, _ in o_first['kw']]}, predicted {[k for k, _ in e_first['kw']]}"))
    if o_again != o_first:
        d.append(('not-idempotent', f'second run gives {render(o_again)}'))
    if not d and (o_first != e_first or o_again != e_again):
        d.append(('other', 'observed calls differ from the predicted ones'))
    return d


# ---- fix_files ----------------------------------------------------------------------------------------------------------------
def check_fix_files(chk, mod, cls, work, lines, rnd):
    """fix_files on a small tree: every .py file is copied (rewritten as the transformer does), nothing else appears."""
    import libcst as cst
    src, dst = pathlib.Path(work, 'fx_in'), pathlib.Path(work, 'fx_out')
    pick = rnd.sample(lines, min(12, len(lines)))
    body = '\n'.join(pick)
    files = {'app/main.py': '# uses the library\nimport os\n\n\ndef run(client, a1, a2, a3, a4, a5, a6):\n'
                            + ''.join(f'    {ln}\n' for ln in pick[:6]) + '    return os.getcwd()\n',
             'app/sub/deep/more.py': body + '\n',
             'app/sub/empty.py': '',
             'top.py': 'class K:\n    def f(self, client, a1):\n        return [client.alpha_call(a1), self.f]\n',
             'app/notes.txt': 'client.alpha_call(a1, a2)\n', 'app/sub/data.json': '{"alpha_call": 1}\n',
             'README.md': '# client.alpha_call(a1)\n', 'app/script.pyw': 'client.alpha_call(a1)\n', 'app/Makefile': 'all:\n'}
    for rel, text in files.items():
        p = src / rel
        p.parent.mkdir(parents=True, exist_ok=True)
        p.write_text(text)
    (src / 'hollow').mkdir()
    dst.mkdir()
    mod.fix_files(src, dst)
    got = sorted(str(p.relative_to(dst)) for p in dst.rglob('*') if p.is_file())
    want = sorted(r for r in files if r.endswith('.py'))
    chk.case('fix_files', nontrivial=True)
    if got != want:
        chk.violation('fix_files:file-set', f'output files {got}, expected exactly the .py files {want}', dict(files=files, got=got))
    for rel in set(got) & set(want):
        text = (dst / rel).read_text()
        try:
            ast.parse(text)
        except SyntaxError as e:
            chk.violation('fix_files:parse', f'{rel}: output does not parse: {e}', dict(rel=rel, input=files[rel], output=text))
            continue
        direct = cst.parse_module(files[rel]).visit(cls()).code
        if text != direct:
            chk.violation('fix_files:rewrite', f'{rel}: differs from what the transformer makes of the same text',
                          dict(rel=rel, input=files[rel], output=text, direct=direct))
    for rel, text in files.items():
        if (src / rel).read_text() != text:
            chk.violation('fix_files:input-modified', f'{rel} of the input directory was changed', dict(rel=rel))
    return dict(input_files=sorted(files), output_files=got)


# ---- main ---------------------------------------------------------------------------------------------------------------------
def main(chk, args):
    import libcst as cst
    rnd = random.Random(chk.seed)
    scope = 'small' if chk.tier == 'quick' else 'full'
    jvm = FAST_JVM if chk.tier == 'quick' else None
    r = tlc.run('Fixup', f'Fixup.{scope}.cfg', deadlock=False, workers=TLC_WORKERS, coverage=True, java_opts=jvm)
    chk.add_tlc(r, f'Fixup model check scope={scope}')
    chk.extra['action_coverage'] = {a: r.coverage.get(a, 0) for a in ('Init',) + ACTIONS}
    for a in ACTIONS:
        if not r.coverage.get(a):
            raise core.MachineryError(f'Fixup: action {a} never taken ({r.coverage})')
    killed = []
    for m, inv in MUTANTS:
        cfg = f'CONSTANTS Mutant = "{m}" {MUTANT_SCOPE}\nSPECIFICATION Spec\nINVARIANT {inv}\n'
        rm = tlc.run('Fixup', cfg, deadlock=False, workers=1, java_opts=FAST_JVM)
        if rm.ok or rm.violated != inv:
            raise core.MachineryError(f'Fixup mutant {m} not rejected by {inv} (violated={rm.violated})\n{rm.out[-1500:]}')
        killed.append(f'{m} -> {inv}')
        chk.tlc_runs.append(dict(label=f'Fixup mutant {m} against {inv} alone (must be violated)', **rm.summary()))
    chk.extra['mutants_rejected'] = killed
    if chk.tier != 'quick':
        # the strict form of (4) must NOT hold: TLC's counterexample is the documentation of what the script does instead
        rs = tlc.run('Fixup', 'Fixup.strictorder.cfg', deadlock=False, workers=1)
        if rs.violated != 'EvalOrderStrict':
            raise core.MachineryError(f'EvalOrderStrict expected to be violated (violated={rs.violated})\n{rs.out[-1500:]}')
        chk.tlc_runs.append(dict(label='Fixup strict evaluation order (must be violated: fields-first is what holds)', **rs.summary()))
    cases, r2 = tlc.emit_cases('Fixup', f'Fixup.emit.{scope}.cfg', deadlock=False, java_opts=jvm)
    chk.add_tlc(r2, f'Fixup case emission scope={scope}')
    if not cases:
        raise core.MachineryError('no cases emitted')
    cases.sort(key=lambda c: (c['np'], c['kind'], len(c['call']['pos']), [k for k, _ in c['call']['kw']]))
    chk.exhaustive = True

    groups = {}
    for c in cases:
        groups.setdefault(shape_class(c), []).append(c)
    fails = {}        # key -> [(n args, input text, output text, predicted text, detail, case)]
    sizes = {}
    traces, tkeys = [], []
    with gen.scratch() as work:
        req, res = gen.generate_api(carrier_api(), dict(transport=['grpc'], snippets=False), work)
        root = gen.materialise(res, os.path.join(work, 'out'))
        mod, cls, script = load_script(root)
        table = pipeline.fixup_table(script)
        if '__error__' in table or sorted(len(v) for v in table.values()) != [3, 4]:
            raise core.MachineryError(f'unexpected fix-up table of the carrier: {table}')
        for meth, ps in table.items():
            if sorted(ps) != sorted(DECL.get(meth, [])) or list(ps) != list(getattr(cls, 'METHOD_TO_PARAMS')[meth]):
                raise core.MachineryError(f'unexpected fix-up table of the carrier: {table}')
        if table['alpha_call'] == DECL['alpha_call'] or table['alpha_call'][0] != REQUIRED['alpha_call']:
            # C15's subject; here it only means the carrier no longer separates table order from declaration order
            raise core.MachineryError(f"carrier: table order {table['alpha_call']} does not put the required field first")
        chk.extra['table'] = table
        transformer = cls()
        all_lines = []
        for key in sorted(groups):
            cs = groups[key]
            meth, names = namer(cs[0]['np'], table)
            ins = [conc(c['call'], names) for c in cs]
            text = ''.join(render(s) + '\n' for s in ins)
            all_lines += [render(s) for s in ins if s['attr'] and s['name'] == meth][:2]
            sizes[key] = len(cs)
            try:
                o_in = project_module(text, len(cs))
                if o_in != ins:
                    raise core.MachineryError(f'synthesised text does not read back as the intended calls ({key})')
                out1 = cst.parse_module(text).visit(transformer).code
                out2 = cst.parse_module(out1).visit(transformer).code
            except core.MachineryError:
                raise
            except Exception as e:
                raise core.MachineryError(f'{key}: the transformer could not be run: {type(e).__name__}: {e}')
            try:
                o1 = project_module(out1, len(cs)); o2 = project_module(out2, len(cs))
            except (SyntaxError, ValueError) as e:
                chk.violation('parse:' + key, f'output does not read back as {len(cs)} call statements: {e}', dict(input=text, output=out1, again=out2))
                continue
            events = []
            for c, i_, a, b in zip(cs, ins, o1, o2):
                chk.case(f"np={c['np']}:" + render(c['call']), nontrivial=bool(c['call']['pos'] or c['call']['kw']))
                e1, e2 = conc(c['first'], names), conc(c['again'], names)
                for asp, detail in aspects(c, e1, e2, i_, a, b):
                    k = f'{asp}:{key}' if asp else key
                    fails.setdefault(k, []).append((len(i_['pos']) + len(i_['kw']), render(i_), render(a), render(e1), detail, c))
                events.append(dict(ev='out', attr=i_['attr'], name=i_['name'], pos=i_['pos'], kw=i_['kw'],
                                   rattr=a['attr'], rname=a['name'], rpos=a['pos'], rkw=a['kw'], rdict=a['dict']))
                events.append(dict(ev='again', rattr=b['attr'], rname=b['name'], rpos=b['pos'], rkw=b['kw'], rdict=b['dict']))
            traces.append(dict(key=key, method=meth, params=table[meth], events=events)); tkeys.append(key)
        chk.extra['fix_files'] = check_fix_files(chk, mod, cls, work, all_lines, rnd)

    # ---- spec -> code ---------------------------------------------------------------------------------------------------------
    for k in sorted(fails):
        fl = sorted(fails[k], key=lambda x: (x[0], x[1]))
        n, text, got, want, detail, c = fl[0]
        base = k if k in sizes else k.split(':', 1)[1]
        chk.violation(k, f'{len(fl)} of {sizes.get(base, "?")} calls of this class; e.g. `{text}` is rewritten to `{got}`, '
                         f'its meaning is `{want}`: {detail}', dict(table=chk.extra['table'], input=text, output=got, predicted=want, case=c,
                                                                   others=[x[1] for x in fl[1:6]]))

    # ---- code -> spec ---------------------------------------------------------------------------------------------------------
    # non-vacuity riding along, independent of the script under test: the trace the SPEC predicts for a seeded choice of cases
    # must be accepted, three corrupted copies of it must be rejected
    import copy

    def predicted_events(c, names):
        i_, a, b = conc(c['call'], names), conc(c['first'], names), conc(c['again'], names)
        return [dict(ev='out', attr=i_['attr'], name=i_['name'], pos=i_['pos'], kw=i_['kw'],
                     rattr=a['attr'], rname=a['name'], rpos=a['pos'], rkw=a['kw'], rdict=a['dict']),
                dict(ev='again', rattr=b['attr'], rname=b['name'], rpos=b['pos'], rkw=b['kw'], rdict=b['dict'])]

    cand = [c for c in cases if c['rewritten'] and len(c['first']['dict']) >= 2 and len(c['first']['kw']) >= 2]
    if not cand:
        raise core.MachineryError('no case with two fields and a control argument to build the corrupted traces from')
    selftest = []
    for what in ('pristine', 'swap-values', 'drop-control', 'again-differs'):
        c = rnd.choice(cand)
        meth, names = namer(c['np'], table)
        e, g = predicted_events(c, names)
        if what == 'swap-values':
            e['rdict'][0][1], e['rdict'][1][1] = e['rdict'][1][1], e['rdict'][0][1]
            g['rdict'] = copy.deepcopy(e['rdict'])
        elif what == 'drop-control':
            e['rkw'] = e['rkw'][:-1]; g['rkw'] = g['rkw'][:-1]
        elif what == 'again-differs':
            g['rdict'] = g['rdict'][1:]
        selftest.append(dict(key=f"selftest:{what}:np={c['np']}:{render(c['call'])}", method=meth, params=table[meth], events=[e, g]))
    batch = traces + selftest
    n, rt = tlc.validate_traces('FixupTrace', 'FixupTrace.total.cfg', batch, timeout=900)
    if n != len(batch) or rt.violated is not None:
        raise core.MachineryError(f'FixupTrace (total) did not process the batch: accepted={n} violated={rt.violated}\n' + rt.out[-3000:])
    chk.states += rt.distinct; chk.transitions += rt.generated
    rej = {}
    for v in rt.tagged.get('REJECTED', []):
        t, l = (int(x) for x in v.split(','))
        rej[t - 1] = l
    verdicts = [i in rej for i in range(len(traces), len(batch))]
    if verdicts != [False, True, True, True]:
        raise core.MachineryError(f'FixupTrace self-test: rejected={verdicts} for {[t["key"] for t in selftest]} (expected: only the pristine one accepted)')
    corrupted = selftest[1:]
    chk.extra['corrupted_traces_rejected'] = [t['key'] for t in corrupted]
    acc = [i for i in range(len(traces)) if i not in rej]
    chk.traces += len(acc)
    chk.tlc_runs.append(dict(label='FixupTrace batch (total verdicts)', traces=len(traces), accepted=len(acc),
                             rejected=len(traces) - len(acc), corrupted_rejected=len(corrupted), **rt.summary()))
    for i in sorted(rej):
        if i >= len(traces):
            continue
        t = traces[i]; l = rej[i]
        ev = t['events'][l - 1] if 0 < l <= len(t['events']) else None
        shown = None
        if ev is not None:
            res_ = dict(attr=ev['rattr'], name=ev['rname'], pos=ev['rpos'], kw=ev['rkw'], dict=ev['rdict'])
            src_ = t['events'][l - 1 - (ev['ev'] == 'again')]
            shown = (f"`{render(dict(attr=src_['attr'], name=src_['name'], pos=src_['pos'], kw=src_['kw'], dict=[]))}` -> "
                     f"`{render(res_)}` (event {l}: {ev['ev']})")
        chk.violation('trace:' + t['key'], f'FixupTrace rejected the recorded run of the file of this class: no step of the machine '
                      f'yields {shown}; {(l - 1) // 2} calls of the file matched before', dict(trace=dict(t, events=t['events'][max(0, l - 3):l + 1]), l=l))

    # ---- evidence -------------------------------------------------------------------------------------------------------------
    rew = [c for c in cases if c['rewritten']]
    broken = sorted((c for c in rew if not c['strict']), key=lambda c: (len(c['call']['pos']) + len(c['call']['kw']), render(c['call'])))
    chk.extra['eval_order'] = dict(
        name='fields-first',
        states='the result evaluates field arguments, then control keywords, then positional control arguments, each group in '
               'its original order (Inv_EvalOrderFieldsFirst); the original order is kept exactly for canonical calls '
               '(Inv_EvalOrderCanonical); EvalOrderStrict does not hold',
        rewritten=len(rew), order_kept=len(rew) - len(broken), order_changed=len(broken),
        canonical=sum(1 for c in rew if c['canonical']),
        smallest_changed=[dict(call=render(c['call']), result=render(c['first']), order=c['order']) for c in broken[:3]])
    chk.extra['classes'] = {k: sum(v for kk, v in sizes.items() if kk.startswith(k + ':')) for k in
                            ('no-kwargs', 'kwargs-in-order', 'kwargs-skip', 'kwargs-out-of-order', 'has-request', 'unknown-method', 'plain-call')}
    chk.rule = (f'every final state of Fixup.tla scope={scope}: method with 3 and 4 parameters x {{known method, unknown method, plain '
                f'function call}} x 0..5 positionals x every injective keyword sequence over the unbound parameters, the unbound '
                f'control parameters and `request` (at most {5 if scope == "small" else 6} arguments on the known method); '
                f'{len(groups)} call-shape classes = source files = traces; non-trivial = calls with at least one argument, distinct by call text')
    for k in ('kwargs-in-order:np=4:npos=2:kw=p3+p4', 'no-kwargs:np=3:npos=5:kw=-', 'has-request:np=4:npos=0:kw=p1'):
        if k in groups:
            c = groups[k][-1]
            chk.sample(dict(cls=k, call=render(c['call']), predicted=render(c['first']), order=c['order']))
    chk.assumptions += [
        'argument expressions are distinct names a1..a6 in source order; the vocabulary holds only calls that are valid for the legacy '
        'signature (no parameter bound twice, no unknown keyword, no * / ** expansion - the script documents those as out of reach)',
        'the legacy signature takes the control parameters positionally after the fields (as the script itself assumes in CTRL_PARAMS order)',
        'input, output and second output are read back with ast; formatting and comments are not part of the projection',
        'the transformer is imported in-process from the materialised script (it has no import-time effects besides its definitions)',
        'evaluation order: only the fields-first order is demanded (see coverage.eval_order); a single request dict cannot interleave control arguments',
    ]


main.level = 'model_checking'
