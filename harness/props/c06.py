"""C06 - every call carries an x-goog-request-params header that follows AIP-4222.

spec      : spec/Routing.tla.  Path templates are token sequences (Lit | Star | DStar, one named capture), field
            values are segment sequences over character classes; Matches/Capture are written from AIP-4222, the
            explicit header is a last-wins fold (one BuildParam step per routing parameter), the implicit header has
            one pair per variable of the primary http binding; Encode/Send/Decode model the header text.  Routing
            fields may be declared proto3 `optional` and then be unset or explicitly "" (both EMPTY: no contribution);
            a paginated method is listed over 2..3 pages and every page fetch (NextPage) is a call that owes the header.
spec->code: TLC enumerates (exhaustive configs) and samples (-simulate, seeded) routing rules x request values and
            prints, per case, the header the specification predicts.  Every distinct rule becomes one method (with
            its own request message) of a generated API (~30 methods per API, transport grpc+rest); the emitted sync
            client, asyncio client (loopback gRPC server, invocation metadata) and REST client (loopback HTTP server,
            request headers) are called with every request - listings are iterated to the end - and the pairs read by
            urllib.parse.parse_qsl from EVERY call that reached the server are compared.
code->spec: per case one trace (invoke / fetch <page k> / encode <raw text classified character by character> / send
            <parse_qsl pairs> / refuse, for the three client paths, every event tagged with its page index) validated
            by spec/RoutingTrace.tla; all invariants of Routing (last-wins, no header when nothing matches, implicit
            pairs, original keys, URL-encoding, agreement) are evaluated after every step, including the silent steps
            of the fold.
"""
import json
import os
import random
import re
from concurrent.futures import ProcessPoolExecutor, ThreadPoolExecutor

from .. import core, gen, tlc
from ..drivers import routing as proj

PKG = 'acme.rt.v1'
MODULE = 'acme.rt_v1'
SERVICE = 'Rt'
PER_API = 30
PATHS = ['sync', 'async', 'rest']
VERBS = ['post', 'get', 'patch', 'put', 'delete']
CHAR = {'sp': ' ', 'amp': '&', 'eq': '=', 'pct': '%', 'uni': 'é'}
MUTANTS = ['first_wins', 'empty_header', 'suffixed_key', 'async_drops_header', 'additional_binding', 'raw_value',
           'dstar_as_star', 'presence_counts', 'one_shot_metadata']
INVARIANTS = ['Inv_Explicit', 'Inv_NoHeaderWhenNothing', 'Inv_Implicit', 'Inv_KeysOriginal', 'Inv_Encoded',
              'Inv_Agree', 'Inv_Fold', 'Inv_FoldDecl', 'Inv_MatchGen', 'Inv_Bounded']


# ---- concretisation: abstract rule / request -> proto annotations / request dict (no expectations in here) -------
def seg_text(seg):
    return ''.join(CHAR.get(c, c) for c in seg)


def value_text(v):
    return '/'.join(seg_text(s) for s in v)


def tok_text(t):
    return {'lit': lambda: seg_text(t['s']), 'star': lambda: '*', 'dstar': lambda: '**'}[t['kind']]()


def tmpl_text(t):
    if not t['toks']:
        return ''
    toks = [tok_text(x) for x in t['toks']]
    a, b = t['from'] - 1, t['to']
    return '/'.join(toks[:a] + ['{' + t['key'] + '=' + '/'.join(toks[a:b]) + '}'] + toks[b:])


def var_text(v, bare_ok):
    toks = '/'.join(tok_text(x) for x in v['toks'])
    name = '.'.join(v['field'])
    return '{' + name + '}' if (toks == '*' and bare_ok) else '{' + name + '=' + toks + '}'


def rule_shape(rule):
    """stable, human-readable name of a rule (used in violation keys)."""
    http = ' | '.join('/'.join(var_text(v, False) for v in b) or '-' for b in rule['http'])
    tail = (' optional[' + ','.join(sorted(rule['opt'])) + ']' if rule.get('opt') else '') + (' paged' if rule.get('paged') else '')
    if rule['explicit']:
        return 'explicit[' + '; '.join('.'.join(p['field']) + ':' + (tmpl_text(p['tmpl']) or '-')
                                       for p in rule['params']) + '] http[' + http + ']' + tail
    return ('implicit-custom[' if rule.get('custom') else 'implicit[') + http + ']' + tail


def method_of(idx, rule):
    """one abstract rule -> METHOD dict of harness.absapi (explicit `routing`, `http` bindings)."""
    verb = VERBS[idx % len(VERBS)]
    http = []
    for bi, b in enumerate(rule['http']):
        uri = f'/v1/m{idx}' + ('/alt' if bi else '') + ''.join('/' + var_text(v, idx % 2 == 1) for v in b)
        if not b:
            uri += ':call'
        if rule.get('custom'):
            h = dict(verb='custom', kind='HEAD', uri=uri)      # HttpRule.custom is the primary (only) pattern
        else:
            h = dict(verb=verb, uri=uri)
            if verb in ('post', 'patch', 'put'):
                h['body'] = '*'
        http.append(h)
    m = dict(name=f'M{idx}', **{'in': f'M{idx}Request', 'out': 'ListResp' if rule.get('paged') else 'Resp'}, http=http,
             x_opt=sorted(rule.get('opt', [])), x_paged=bool(rule.get('paged')))
    if rule['explicit']:
        m['routing'] = [dict(field='.'.join(p['field']), tmpl=tmpl_text(p['tmpl'])) for p in rule['params']]
    return m


def api_of(methods, keyword=False):
    extra = [dict(name='class')] if keyword else []
    msgs = [dict(name='Sub', fields=[dict(name='name'), dict(name='type'), dict(name='id', type='int32')] + extra),
            dict(name='Resp', fields=[dict(name='x')]),
            dict(name='ListResp', fields=[dict(name='items', repeated=True), dict(name='next_page_token')])]
    for m in methods:
        opt = set(m.get('x_opt', []))
        paging = [dict(name='page_size', type='int32'), dict(name='page_token')] if m.get('x_paged') else []
        msgs.append(dict(name=m['in'], fields=[dict(name=f, optional=True) if f in opt else dict(name=f)
                                               for f in ('name', 'other', 'type')]
                         + [dict(name='sub', type='Sub'), dict(name='page', type='int32')] + paging + extra))
    return dict(files=[dict(name='acme/rt/v1/rt.proto', package=PKG, messages=msgs,
                            services=[dict(name=SERVICE, methods=methods)])])


def request_of(req, blank=()):
    """abstract request -> request dict: unset fields are left out, fields of `blank` are set explicitly to ''."""
    out = {k: '' for k in blank}
    for k, v in req.items():
        if not v:
            continue
        parts = k.split('.')
        d = out
        for p in parts[:-1]:
            d = d.setdefault(p, {})
        d[parts[-1]] = value_text(v)
    return out


# ---- one packed API: generate, materialise, drive (runs in a worker process) -------------------------------------
def _run_api(job):
    """job: {api, cases:[{id, method, rpc, request}]} -> {gen_error, import_error, obs}"""
    try:
        with gen.scratch() as work:
            try:
                req, res = gen.generate_api(job['api'], dict(transport=['grpc', 'rest'], snippets=False), work)
                if res.error:
                    return dict(gen_error='generator error: ' + res.error[:600], obs={})
            except Exception as e:
                return dict(gen_error=f'{type(e).__name__}: {e}'[:600], obs={})
            root = gen.materialise(res, os.path.join(work, 'out'))
            ok, out, err = gen.run_driver('harness.drivers.routing', root,
                                          dict(api=job['api'], list_resp=f'{PKG}.ListResp', module=MODULE, service=SERVICE,
                                               service_snake='rt', pkg=PKG, cases=job['cases'], paths=PATHS), timeout=1500)
            if not ok:
                return dict(machinery='routing driver failed:\n' + err)
            return dict(gen_error=None, import_error=out['import_error'], obs=out['obs'])
    except Exception as e:  # pragma: no cover
        return dict(machinery=f'{type(e).__name__}: {e}')


HEAP = '-Xmx3g'            # many checks share this machine: keep every JVM small
NPROC = 8                  # ... and at most this many worker processes at a time


def _tlc(*a, **kw):
    """tlc.run with a bounded heap; a run killed from outside (OOM killer on the shared machine) is repeated once."""
    kw.setdefault('java_opts', [HEAP])
    r = tlc.run(*a, **kw)
    if r.rc in (-9, 137):
        r = tlc.run(*a, **kw)
    return r


def _emit(*a, **kw):
    r = _tlc(*a, workers=1, **kw)
    return r.cases, r


def _validate(batch):
    for attempt in (0, 1):
        try:
            return tlc.validate_all('RoutingTrace', 'RoutingTrace.cfg', batch, timeout=1500,
                                    env={'JAVA_TOOL_OPTIONS': HEAP})
        except RuntimeError:
            if attempt:
                raise


def _canon_pairs(pairs):
    return sorted(json.dumps(p, sort_keys=True) for p in pairs)


def main(chk, args):
    quick = chk.tier == 'quick'
    rnd = random.Random(chk.seed)
    bg = ThreadPoolExecutor(NPROC)            # every thread drives one TLC process (shared machine: at most NPROC)
    # 1. the specification satisfies the property within the bounds; the spec mutants are rejected.  These TLC runs
    #    proceed in the background while cases are emitted and executed (the longest one is started first).
    mc_cfgs = ['Routing.small.cfg', 'Routing.presence.cfg', 'Routing.paged.cfg'] + ([] if quick else ['Routing.full.cfg'])
    mc = [bg.submit(_tlc, 'Routing', mc_cfgs[0], deadlock=False, timeout=2400, workers=4)]
    # 2. spec -> code cases: exhaustive small scopes + seeded simulation of the large scope
    emits = [('Routing.emit.tiny.cfg', {}), ('Routing.emit.presence.cfg', {}), ('Routing.emit.paged.cfg', {}),
             ('Routing.emit.keyword.cfg', {})]
    nsim, per = (4, 40) if quick else (12, 250)
    if not quick:
        emits = [('Routing.emit.templates.cfg', {}), ('Routing.emit.small.cfg', {})] + emits
    emits += [('Routing.emit.sim.cfg', dict(simulate=per, depth=700, seed=chk.seed * 1000 + 17 + k)) for k in range(nsim)]
    futs = [(cfg, bg.submit(_emit, 'Routing', cfg, deadlock=False, timeout=1500, **kw)) for cfg, kw in emits]
    mc += [bg.submit(_tlc, 'Routing', cfg, deadlock=False, timeout=2400, workers=2 if quick else 4) for cfg in mc_cfgs[1:]]
    mc_labels = [cfg.split('.')[1] for cfg in mc_cfgs]
    if not quick:
        # beyond the exhaustive bounds: seeded simulation of the large scope (0..4 parameters, 1..3 variables,
        # optional fields, listings of 2..3 pages)
        mc += [bg.submit(_tlc, 'Routing', 'Routing.sim.cfg', deadlock=False, timeout=2400, workers=1, simulate=2500,
                         depth=700, seed=chk.seed * 1000 + 91 + k) for k in range(3)]
        mc_labels += ['simulate large'] * 3
    # (mutants: seeded simulation of the small scope - with optional fields and listings switched on - with 6
    #  requests per rule finds each of them within seconds)
    base_cfg = (open(os.path.join(tlc.SPEC, 'Routing.small.cfg')).read().replace('MaxCalls = 1', 'MaxCalls = 6')
                .replace('OptFields = {}', 'OptFields = {"name"}').replace('MaxPages = 1', 'MaxPages = 2'))
    muts = {m: bg.submit(_tlc, 'Routing', base_cfg.replace('Mutant = "none"', f'Mutant = "{m}"'), deadlock=False,
                         timeout=1200, workers=1, simulate=6000, depth=400, seed=5) for m in MUTANTS}
    cases, seen, per_cfg = [], set(), {}
    for cfg, f in futs:
        cs, r = f.result()
        chk.add_tlc(r, f'case emission {cfg}' + (f" seed={r.cmd.split('-seed ')[1].split()[0]}" if 'simulate' in r.cmd else ''))
        if not cs:
            raise core.MachineryError(f'no cases emitted by {cfg}\n{r.out[-2000:]}')
        for c in cs:
            c['blank'] = sorted(c['blank']); c['rule']['opt'] = sorted(c['rule']['opt'])
            key = json.dumps([c['rule'], c['req'], c['blank'], c['npages']], sort_keys=True)
            if key in seen:
                continue                      # same (rule, request): e.g. the refuse / send variants of REST
            seen.add(key)
            c['src'] = cfg
            cases.append(c)
            per_cfg[cfg] = per_cfg.get(cfg, 0) + 1
    chk.exhaustive = False                    # exhaustive over the small scopes, sampled over the large one
    by_rule = {}
    for c in cases:
        by_rule.setdefault(json.dumps(c['rule'], sort_keys=True), []).append(c)
    rule_keys = sorted(by_rule)
    if quick:
        # fixed corners (keyword pool, empty annotation) + a seeded sample of rules, at most 16 requests per rule
        corner = [k for k in rule_keys if by_rule[k][0]['src'].endswith('keyword.cfg')
                  or (by_rule[k][0]['rule']['explicit'] and not by_rule[k][0]['rule']['params'])]
        corner += [k for k in rule_keys if by_rule[k][0]['rule'].get('custom')][:8]
        # the presence and pagination dimensions: a seeded sample of the rules with optional fields / listings
        for dim in ('opt', 'paged'):
            pool_ = [k for k in rule_keys if by_rule[k][0]['rule'].get(dim) and k not in corner]
            corner += rnd.sample(pool_, min(len(pool_), 40))
        rest = [k for k in rule_keys if k not in corner]
        rule_keys = corner + rnd.sample(rest, min(len(rest), 200))
        for k in rule_keys:
            if len(by_rule[k]) > 16:
                keep = [c for c in by_rule[k] if c['blank']][:8]          # explicitly empty optional fields stay in
                by_rule[k] = keep + rnd.sample([c for c in by_rule[k] if c not in keep], 16 - len(keep))

    # 3. concretise: pack rules as methods of generated APIs.  Shapes known to break the whole package (design
    #    findings F1/F2: Python keywords; the empty routing annotation) get an API of their own so that they cannot
    #    mask the others.
    def fragile(rule):
        words = {w for p in rule['params'] for w in p['field']} | {w for b in rule['http'] for v in b for w in v['field']}
        return 'class' in words or (rule['explicit'] and not rule['params'])

    groups, cur = [], []
    for k in rule_keys:
        rule = json.loads(k)
        if fragile(rule):
            groups.append([k])
        else:
            cur.append(k)
            if len(cur) == PER_API:
                groups.append(cur); cur = []
    if cur:
        groups.append(cur)
    jobs, meta = [], {}
    for gi, g in enumerate(groups):
        methods, jcases = [], []
        kw = False
        for mi, k in enumerate(g):
            rule = json.loads(k)
            kw = kw or 'class' in k
            m = method_of(mi, rule)
            methods.append(m)
            for ci, c in enumerate(by_rule[k]):
                cid = f'{gi}.{mi}.{ci}'
                meta[cid] = (c, m)
                jcases.append(dict(id=cid, method=f'm{mi}', rpc=f'/{PKG}.{SERVICE}/M{mi}',
                                   request=request_of(c['req'], c['blank']), paged=bool(rule.get('paged')), npages=c['npages']))
        jobs.append(dict(api=api_of(methods, keyword=kw), cases=jcases, rules=g))
    results = []
    with ProcessPoolExecutor(NPROC) as ex:
        for job, out in zip(jobs, ex.map(_run_api, jobs)):
            if out.get('machinery'):
                raise core.MachineryError(out['machinery'])
            results.append((job, out))

    # 4. spec -> code comparison; a rule that cannot even be generated / imported is a violation of its own
    fails = {}                                # key -> [count, summary, replay]

    def fail(key, summary, replay):
        f = fails.setdefault(key, [0, summary, replay])
        f[0] += 1

    def special_key(rule, what):
        words = [w for p in rule['params'] for w in p['field']] + [w for b in rule['http'] for v in b for w in v['field']]
        if what in ('generation', 'import') and 'class' in words:
            return ('keyword-explicit-field:class' if rule['explicit'] else 'keyword-nested-implicit:class')
        if what in ('generation', 'import') and rule['explicit'] and not rule['params']:
            return f'explicit-zero-params:{what}'
        return f'{what}:{rule_shape(rule)}'

    traces, trace_ids = [], []
    refused_ok = 0
    for job, out in results:
        broken = out.get('gen_error') or out.get('import_error')
        if broken:
            what = 'generation' if out.get('gen_error') else 'import'
            if len(job['rules']) > 1:
                # isolate: regenerate every method of the packed API on its own
                singles = [dict(api=api_of([method_of(0, json.loads(k))]), cases=[], rules=[k]) for k in job['rules']]
                with ProcessPoolExecutor(NPROC) as ex:
                    outs = list(ex.map(_run_api, singles))
                bad = [(k, o) for k, o in zip(job['rules'], outs) if o.get('gen_error') or o.get('import_error')]
                if not bad:
                    raise core.MachineryError(f'packed API fails ({broken}) but every method alone works')
            else:
                bad = [(job['rules'][0], out)]
            for k, o in bad:
                rule = json.loads(k)
                msg = o.get('gen_error') or o.get('import_error')
                w = 'generation' if o.get('gen_error') else 'import'
                for c in by_rule[k]:
                    chk.case(f'{rule_shape(rule)} / {json.dumps(c["req"], sort_keys=True)}', nontrivial=True)
                fail(special_key(rule, w), f'{w} fails for routing rule {rule_shape(rule)}: {msg}',
                     dict(rule=rule, method=method_of(0, rule), error=msg, cases=len(by_rule[k])))
            continue
        for jc in job['cases']:
            c, m = meta[jc['id']]
            rule = c['rule']
            shape = rule_shape(rule)
            obs = out['obs'].get(jc['id'], {})
            want_pairs = _canon_pairs(c['pairs'])
            chk.case(f'{shape} / {json.dumps(jc["request"], sort_keys=True)} / {c["npages"]}', nontrivial=bool(jc['request']))
            for p in PATHS:
                o = obs.get(p)
                diff = None
                if o is None:
                    diff = 'no observation'
                elif o['status'] == 'refused':
                    if c['restmust']:
                        diff = f'the REST transport refused a request it must be able to send: {o["error"]}'
                    else:
                        refused_ok += 1
                elif o['status'] != 'sent':
                    diff = f'call failed: {o["error"]}'
                elif len(o['fetches']) != c['npages']:
                    diff = (f'{len(o["fetches"])} calls reached the server for a listing of {c["npages"]} pages'
                            + (f' ({o["error"]})' if o.get('error') else ''))
                else:
                    for k, raw in enumerate(o['fetches'], 1):
                        where = f'call for page {k}: ' if c['npages'] > 1 else ''
                        got_present = bool(raw)
                        got_pairs = _canon_pairs(proj.pairs_of(raw[0])) if got_present else []
                        if len(raw) > 1:
                            diff = f'{where}{len(raw)} header entries: {raw}'
                        elif got_present != c['present']:
                            diff = (f'{where}header {"present" if got_present else "absent"} '
                                    f'({raw}), predicted {"present" if c["present"] else "absent"}')
                        elif got_pairs != want_pairs:
                            diff = f'{where}pairs {got_pairs} (raw {raw[0]!r}) != predicted {want_pairs}'
                        if diff:
                            break
                if diff:
                    fail(special_key(rule, f'replay:{p}'), f'{shape} request={jc["request"]}: {diff}',
                         dict(case=c, method=m, request=jc['request'], path=p, observed=o))
            traces.append(dict(rule=rule, req=c['req'], blank=c['blank'], npages=c['npages'],
                               events=proj.events_of(obs, PATHS)))
            trace_ids.append(jc['id'])

    # 5. code -> spec: batched trace validation, batches in parallel
    nb = max(1, min(12, len(traces) // 400))
    batches = [list(range(b, len(traces), nb)) for b in range(nb)]
    vres = list(bg.map(_validate, [[traces[i] for i in idx] for idx in batches]))
    tot_runs = 0
    for idx, (accepted, rejected, runs) in zip(batches, vres):
        for r3 in runs:
            chk.states += r3.distinct; chk.transitions += r3.generated
        tot_runs += len(runs)
        chk.traces += accepted
        for bi, t, info in rejected:
            cid = trace_ids[idx[bi]]
            c, m = meta[cid]
            fail(special_key(c['rule'], 'trace'),
                 f'RoutingTrace rejected the recorded behaviour of {rule_shape(c["rule"])} '
                 f'request={request_of(c["req"], c["blank"])}: {info}', dict(case=c, method=m, trace=t, info=info))
    chk.tlc_runs.append(dict(label='RoutingTrace batches', batches=nb, runs=tot_runs, accepted=chk.traces))
    for key in sorted(fails):
        n, summary, replay = fails[key]
        chk.violation(key, (f'[{n} failing cases] ' if n > 1 else '') + summary, replay)

    # 6. the background TLC runs
    simulated = 0
    for f, label in zip(mc, mc_labels):
        r = f.result()
        chk.add_tlc(r, f'Routing model check ({label})')
        m = re.search(r'(\d+) states checked', r.out)
        simulated += int(m.group(1)) if m and 'simulate' in label else 0
    for m, f in muts.items():
        rm = f.result()
        chk.add_tlc(rm, f'spec mutant {m} (must be rejected)', require_ok=False)
        if rm.violated not in INVARIANTS:
            raise core.MachineryError(f'spec mutant {m} was not rejected by TLC: violated={rm.violated}\n{rm.out[-1500:]}')
    bg.shutdown()

    chk.rule = ('cases = (routing rule, request) pairs chosen by TLC: exhaustive over the tiny/small/templates/keyword '
                'scopes and seeded -simulate over the large scope (explicit rules of 0..4 parameters over <= 2 fields, '
                'templates = every capture range over realistic token sequences, keys shared between parameters, nested '
                'and reserved-word fields; implicit rules of 1..3 variables, optional additional binding, or the `custom` pattern as the only binding); requests derived '
                'from the templates (unset, explicitly empty for fields declared proto3 optional, matching, matching with characters '
                'needing escaping, broken); paginated methods are listed over 2..3 pages and every page fetch is observed; each case is '
                'executed on sync gRPC, asyncio gRPC and REST.  non-trivial = at least one field the rule reads is non-empty; '
                'distinct by (rule, request)')
    def pick(pred, n):
        out, rules_seen = [], set()
        for i in meta:
            c = meta[i][0]
            shape = rule_shape(c['rule'])
            if shape not in rules_seen and pred(c):
                rules_seen.add(shape); out.append(i)
                if len(out) == n:
                    break
        return out
    esc = lambda c: any('sp' in seg for _, v in c['pairs'] for seg in v)
    ids = (pick(lambda c: c['rule']['explicit'] and len(c['rule']['params']) > 2 and len(c['pairs']) > 1 and esc(c), 2)
           + pick(lambda c: c['rule']['explicit'] and c['rule']['params'] and not c['present'] and request_of(c['req']), 1)
           + pick(lambda c: c['blank'] and c['present'], 1) + pick(lambda c: c['npages'] > 1 and c['present'], 1)
           + pick(lambda c: not c['rule']['explicit'] and len(c['pairs']) > 1 and esc(c) and 'type' in json.dumps(c['rule']), 2)
           + pick(lambda c: c['rule']['explicit'] and len(c['rule']['params']) == 2 and esc(c), 1))
    for cid in ids:
        c, m = meta[cid]
        chk.sample(limit=8, obj=dict(rule=rule_shape(c['rule']), routing=m.get('routing'), http=m['http'], request=request_of(c['req'], c['blank']), pages=c['npages'],
                        predicted=dict(present=c['present'], pairs=[[k, value_text(v)] for k, v in c['pairs']])))
    chk.assumptions += [
        'path templates follow routing.proto / http.proto syntax: exactly one named segment, `**` only as the last segment',
        'a routing path_template written `{key}` (without `=`) is left out: it crashes generation in the unit-test '
        'sample helper (uri_sample.sample_from_path_template), outside the code C06 is about (DESIGN 7.1)',
        'only top-level routing fields are declared proto3 optional (nested messages are shared between the methods of an API)',
        'client-streaming methods are not in the quantifier (they send an empty implicit header by design)',
        'REST: a request whose path variables do not match the http rule strictly (non-empty segments, `**` >= 1 '
        'segment) may be refused by transcoding (no HTTP request at all); that is C04\'s subject and accepted here',
        'a method bound only with the HttpRule `custom` pattern has no REST binding: the REST path is a refusal there',
        'header-pair order, other metadata entries and the spelling of percent-escapes (case, `+` vs %20) are not compared',
        'http verbs are assigned round-robin by the harness; `{f}` and `{f=*}` spellings of http variables alternate',
        'loopback gRPC/HTTP servers; character classes are represented by one character each (space & = % e-acute)']
    chk.extra.update(simulated_states_checked=simulated, rules=len(rule_keys), apis=len(jobs), cases_by_config=per_cfg, rest_refusals_accepted=refused_ok,
                     calls=sum(len(o.get('fetches', [])) for _, out in results for ob in out.get('obs', {}).values() for o in ob.values()))


main.level = 'model_checking'
