"""C08 - long-running methods return futures typed by google.longrunning.operation_info.

spec      : spec/Lro.tla.  Part (a) generation-time resolution of operation_info (two-pass loading, relative names
            against the METHOD's package, rejection of empty type names, plain methods without the annotation);
            part (b) the run-time protocol Start -> Wrap -> Poll* -> Resolve | Fail over operation histories
            NotDone^k . Done(response | error), for request fields named like the api-core modules (`operation`,
            `operation_async`) passed in a request object or flattened.  Two client instances with their
            own channels / servers live in every driver process (a poll must go out on the channel its Start went out
            on); relative names may have a namesake in an enclosing package (the method's package wins).
            Fourteen spec mutants (`Mutant`) must be rejected by TLC.
spec->code: TLC emits every resolution case (Lro.emit.res/all.cfg) and every history for carrier cases
            (Lro.emit.run.cfg) with the predicted observables.  Each resolution case is concretised (absapi), run
            through the REAL generator with the /repo hooks on (Method event: resolved type names; or the raised
            error), the emitted library is executed in a fresh interpreter (drivers/lro.py) behind scripted loopback
            gRPC / HTTP servers under virtual time, and the projection is compared with the prediction.
code->spec: gen/genfail + start/wrap/poll/resolve/fail/return events of every run are validated by
            spec/LroTrace.tla in one batch; every invariant of Lro is evaluated after every recorded step.
"""
import json
import os
import random
from concurrent.futures import ProcessPoolExecutor, ThreadPoolExecutor

from .. import core, gen, tlc

P = 'acme.lr.v1'
MODULE = 'acme.lr_v1'
OPS_YAML = {'type': 'google.api.Service', 'config_version': 3, 'name': 'lib.example.com',
            'apis': [{'name': 'google.longrunning.Operations'}],
            'http': {'rules': [{'selector': 'google.longrunning.Operations.GetOperation',
                                'get': '/v1/{name=operations/*}'}]}}
MSGS = {
    'Req': [dict(name='name')],          # the field is renamed to case['fld'] by concretise()
    'Thing': [dict(name='n', type='int32')],
    'RunResponse': [dict(name='x'), dict(name='n', type='int32')],
    'RunMetadata': [dict(name='p', type='int32')],
}
DECOY = [dict(name='decoy')]
NON_TARGET = ('dep', 'anc', 'ext_b', 'ext_a')
NAMESAKES = ('dep', 'anc')     # files that only declare same-named messages nobody may resolve to
MUTANTS = ['late_dependency_invisible', 'lose_argument', 'outermost_first', 'shared_operations_client', 'single_pass', 'prefix_qualified', 'decoy_package', 'accept_empty', 'sync_future', 'poll_when_done',
           'fresh_channel', 'wrong_name', 'drop_metadata_type', 'swallow_error']
EVENT_FIELDS = dict(ev='', kind='', resp='', meta='', err='', rpc='', chan=0, name='', future='', type='', value=0,
                    mtype='', mvalue=0, code=0)


def file_name(fid):
    return {'dep': 'other/dep/v1/dep.proto', 'anc': 'acme/anc.proto', 'ext_b': 'other/ext/v1/ext_b.proto',
            'ext_a': 'other/ext/v1/ext_a.proto'}.get(fid, f'acme/lr/v1/{fid}.proto')


def concretise(case, experimental=False):
    """abstract request of Lro.tla (case['files'], annotation text, output) -> abstract API.  No expectation here."""
    files = []
    for f in case['files']:
        if f['id'] == 'empty':
            continue            # google/protobuf/empty.proto: the installed descriptor (absapi std deps)
        fd = dict(name=file_name(f['id']), package=f['pkg'], target=bool(f['target']),
                  imports=[file_name(i) for i in f['imports'] if i != 'empty'],
                  messages=[dict(name=m, fields=DECOY if f['id'] in NAMESAKES else
                                 [dict(name=case['fld'])] if m == 'Req' else MSGS[m]) for m in f['msgs']])
        if f['id'] in NON_TARGET:
            fd['std_deps'] = []     # dependency packages: namesakes (dep, anc) or the annotated types themselves (ext_*)
        if f['id'] == 'lr':
            m = dict(name='Run', **{'in': 'Req', 'out': case['outType'] if case['out'] == 'op' else 'Thing'},
                     http=[dict(verb='post', uri='/v1/{%s=things/*}:run' % case['fld'], body='*')])
            if case['fld'] != 'name':
                m['sigs'] = [case['fld']]      # flattened keyword argument named after the field
            if case['ann']:
                m['lro'] = dict(resp=case['respName'], meta=case['metaName'])
            fd['services'] = [dict(name='Lr', methods=[m])]
        files.append(fd)
    if not case['ann'] and not experimental:
        # no annotated method, nothing polls: the library is generated WITHOUT a service YAML, i.e. without the
        # google.longrunning.Operations mixin (the carrier copy of this case keeps the YAML)
        return dict(files=files)
    y = json.loads(json.dumps(OPS_YAML))
    if experimental:
        y['publishing'] = {'library_settings': [{'version': P, 'python_settings': {
            'experimental_features': {'rest_async_io_enabled': True}}}]}
    return dict(files=files, yaml=y)


def res_key(c):
    def ref(r):
        return f"{r['kind']}:{r['site']}" + ('+encl' if r['encl'] else '')
    return (f"ann={int(c['ann'])}/out={c['out']}/resp={ref(c['rsp'])}/meta={ref(c['mta'])}"
            + (f"/field={c['fld']}" if c['fld'] != 'name' else ''))


def run_key(c, transport):
    return f"{res_key(c)}{'/flattened' if c['form'] == 'flattened' else ''}{'/inst=2' if c['inst'] == 2 else ''}/{c['mode']}/{transport}/k={c['k']}/{c['outcome']}/v={c['value']}/code={c['code']}"


def _init_worker():
    import warnings
    warnings.simplefilter('ignore')
    gen._trace_path = None      # a forked worker gets its own trace file
    gen.enable_trace()


def run_group(job):
    """Worker: one resolution case -> real generator (hooks on) -> emitted library driven through `runs`."""
    case, runs = job['case'], job['runs']
    api = concretise(case, job['experimental'])
    obs = dict(gid=job['gid'], gen='ok', err='', errmsg='', method=None, runs=[], driver_error=None)
    with gen.scratch() as work:
        gen.read_trace()
        try:
            req, res = gen.generate_api(api, dict(transport=['grpc', 'rest'], snippets=False), work)
            if res.HasField('error'):
                raise RuntimeError('CodeGeneratorResponse.error: ' + res.error)
        except Exception as e:  # the generator rejected (or crashed on) the request
            obs['gen'] = 'fail'
            obs['err'] = 'TypeError' if isinstance(e, TypeError) else type(e).__name__
            obs['errmsg'] = str(e).replace('\n', ' ')[:300]
            gen.read_trace()
            return obs
        ms = [e for e in gen.read_trace() if e['ev'] == 'Method' and e['service'] == P + '.Lr' and e['name'] == 'Run']
        if len(ms) == 1:
            obs['method'] = dict(lro=ms[0]['lro'], output=ms[0]['output'])
        if not runs:
            return obs
        root = gen.materialise(res, os.path.join(work, 'out'))
        from ..pipeline import write_pb2
        for fdp in req.proto_file:      # protoc-style modules for the non-target API files, so that an emitted
            if fdp.name in [file_name(x) for x in NON_TARGET]:        # import of them (if any) resolves
                write_pb2(fdp, root)
        payload = dict(api=api, module=MODULE, service='Lr', service_snake='lr', pkg=P,
                       method=dict(name='Run', snake='run', req=P + '.Req', field=case['fld'], arg=case['arg'],
                                   grpc_path=f'/{P}.Lr/Run', http_verb='POST', http_path=f"/v1/{case['arg']}:run",
                                   http_arg_suffix=':run'),
                       kind=case['gen'], resp=case['resp'], meta=case['meta'], out=case['outType'],
                       opname=case['opname'], poll_prefix='/v1/', runs=runs)
        ok, out, err = gen.run_driver('harness.drivers.lro', root, payload, timeout=900)
        if not ok:
            obs['driver_error'] = err[-3000:]
        else:
            obs['runs'] = out['runs']
            obs['versions'] = out.get('versions')
    return obs


def ev(**kw):
    e = dict(EVENT_FIELDS)
    e.update({k: v for k, v in kw.items() if k in EVENT_FIELDS})
    return e


def gen_event(obs):
    """generator observation -> first event of every trace of this resolution case (pure field selection)."""
    if obs['gen'] == 'fail':
        return ev(ev='genfail', err=obs['err'])
    m = obs['method']
    if m is None:
        return ev(ev='gen', kind='NO-METHOD-EVENT')
    lro = m['lro']
    if isinstance(lro, dict):
        return ev(ev='gen', kind='future', resp=lro['response'], meta=lro['metadata'])
    return ev(ev='gen', kind='plain' if lro is None else str(lro))


def compare_gen(case, obs):
    """spec -> code, part (a): generation outcome and resolved names vs prediction."""
    diffs = []
    g = gen_event(obs)
    if case['gen'] == 'TypeError':
        if obs['gen'] != 'fail':
            diffs.append('generation succeeded; predicted rejection (TypeError)')
        elif obs['err'] != 'TypeError':
            diffs.append(f"generation raised {obs['err']} ({obs['errmsg']}); predicted a TypeError-class rejection")
        return diffs
    if obs['gen'] == 'fail':
        return [f"generation raised {obs['err']}: {obs['errmsg']}; predicted {case['gen']}"]
    if g['kind'] != case['gen']:
        diffs.append(f"method kind {g['kind']} != predicted {case['gen']}")
    if case['gen'] == 'future' and (g['resp'], g['meta']) != (case['resp'], case['meta']):
        diffs.append(f"resolved ({g['resp']}, {g['meta']}) != predicted ({case['resp']}, {case['meta']})")
    if obs['method'] is not None and obs['method']['output'] != case['outType']:
        diffs.append(f"method output {obs['method']['output']} != {case['outType']}")
    return diffs


def compare_run(case, events):
    """spec -> code, part (b): projection of the recorded events vs the observables predicted by the spec."""
    diffs = []
    bad = [e for e in events if e['ev'] in ('crash', 'other')]
    if bad:
        diffs.append('unexpected ' + '; '.join(f"{e['ev']}: {e.get('detail') or e.get('rpc')}" for e in bad[:3]))
    starts = [e for e in events if e['ev'] == 'start']
    if len(starts) != case['starts'] or any((e['rpc'], e['chan'], e['name']) != ('Run', case['inst'], case['arg']) for e in starts):
        diffs.append(f"calls to the RPC {[(e['rpc'], e['chan'], e['name']) for e in starts]} != predicted "
                     f"{case['starts']} x ('Run', {case['inst']}, '{case['arg']}')")
    polls = [dict(rpc=e['rpc'], chan=e['chan'], name=e['name']) for e in events if e['ev'] == 'poll']
    if polls != case['polls']:
        diffs.append(f"polls {polls} != predicted {case['polls']}")
    fut = [e['future'] for e in events if e['ev'] in ('wrap', 'return')]
    if fut != [case['future']]:
        diffs.append(f"future kind {fut} != predicted [{case['future']}]")
    settle = [e for e in events if e['ev'] in ('resolve', 'fail', 'return')]
    if len(settle) != 1:
        diffs.append(f"settled {len(settle)} times")
    else:
        s = settle[0]
        if case['raised']:
            if s['ev'] != 'fail' or s['code'] != case['raised']:
                diffs.append(f"{s['ev']} code={s['code']} != predicted error {case['raised']}")
        else:
            if s['ev'] == 'fail' or dict(type=s['type'], value=s['value']) != case['result']:
                diffs.append(f"{s['ev']} type={s['type']} value={s['value']} != predicted result {case['result']}")
        if s['ev'] != 'return' and dict(type=s['mtype'], value=s['mvalue']) != case['seenMeta']:
            diffs.append(f"metadata type={s['mtype']} value={s['mvalue']} != predicted {case['seenMeta']}")
    return diffs


def spec_mutants(chk):
    """non-vacuity of the oracle: every spec mutant must violate an invariant of Lro."""
    base = open(os.path.join(tlc.SPEC, 'Lro.mutant.cfg')).read()

    def one(m):
        return m, tlc.run('Lro', base.replace('Mutant = "none"', f'Mutant = "{m}"'), deadlock=False, workers=2, timeout=600)
    out = {}
    with ThreadPoolExecutor(4) as ex:
        for m, r in ex.map(one, MUTANTS):
            out[m] = r.violated
            if r.ok or not (r.violated or '').startswith('Inv_'):
                raise core.MachineryError(f'spec mutant {m} was not rejected by an invariant (violated={r.violated})\n{r.out[-1500:]}')
    chk.extra['spec_mutants_rejected'] = out


def main(chk, args):
    quick = chk.tier == 'quick'
    rnd = random.Random(chk.seed)
    # 1. the specification satisfies the property (and is live) within the bounds; its mutants do not
    r = tlc.run('Lro', 'Lro.small.cfg' if quick else 'Lro.full.cfg', deadlock=False, timeout=1500, workers=8)
    chk.add_tlc(r, 'Lro model check')
    spec_mutants(chk)
    # 2. spec -> code cases: resolution cases (x histories when thorough) and carrier cases x every history
    cases, r2 = tlc.emit_cases('Lro', 'Lro.emit.res.cfg' if quick else 'Lro.emit.all.cfg', deadlock=False, timeout=1500)
    chk.add_tlc(r2, 'Lro case emission (resolution cases)')
    carriers, r3 = tlc.emit_cases('Lro', 'Lro.emit.run.small.cfg' if quick else 'Lro.emit.run.cfg', deadlock=False, timeout=1500)
    chk.add_tlc(r3, 'Lro case emission (carrier cases x histories)')
    if not cases or not carriers:
        raise core.MachineryError('no cases emitted')
    groups = {}
    for c in cases:
        groups.setdefault(res_key(c), []).append(c)
    chk.extra['resolution_cases'] = len(groups)
    chk.exhaustive = True
    keys = sorted(groups)
    if quick:
        fails = [k for k in keys if groups[k][0]['gen'] == 'TypeError']
        futs = [k for k in keys if groups[k][0]['gen'] == 'future']
        plains = [k for k in keys if groups[k][0]['gen'] == 'plain']
        # fixed corners: a greedy cover of every (name kind, site) for the response and for the metadata
        corners, seen = [], set()
        for k in futs:
            c = groups[k][0]
            tags = {('r', c['rsp']['kind'], c['rsp']['site'], c['rsp']['encl']),
                    ('m', c['mta']['kind'], c['mta']['site'], c['mta']['encl'])}
            if not tags <= seen:
                seen |= tags
                corners.append(k)
        rest = [k for k in futs if k not in corners]
        pick = fails + corners + rnd.sample(rest, min(len(rest), 8)) + \
            [k for k in plains if 'ann=0' in k] + rnd.sample([k for k in plains if 'ann=1' in k], 3)
        keys = sorted(set(pick))
        chk.exhaustive = False
    jobs = []
    expect = {}          # (gid, run id) -> (case, transport)
    for k in keys:
        cs = groups[k]
        c0 = cs[0]
        runs = []
        if c0['gen'] != 'TypeError':
            seen_plain = set()
            for i, c in enumerate(cs):
                if c0['gen'] == 'plain':       # a plain method has no history: one run per (mode, value)
                    if (c['mode'], c['value']) in seen_plain:
                        continue
                    seen_plain.add((c['mode'], c['value']))
                for tr in ('grpc', 'rest'):
                    if c['mode'] == 'asyncio' and tr == 'rest':
                        continue               # rest_asyncio is experimental: carrier cases only
                    rid = f'{i}:{tr}'
                    runs.append(dict(id=rid, mode=c['mode'], transport=tr, inst=c['inst'], form=c['form'], k=c['k'],
                                     outcome=c['outcome'], value=c['value'], code=c['code']))
                    expect[(k, rid)] = (c, tr)
        jobs.append(dict(gid=k, case=c0, runs=runs, experimental=False))
    cgroups = {}
    for c in carriers:
        cgroups.setdefault(res_key(c), []).append(c)
    for k in sorted(cgroups):
        cs = cgroups[k]
        runs = []
        seen_plain = set()
        for i, c in enumerate(cs):
            if cs[0]['gen'] == 'plain':
                if (c['mode'], c['value'], c['inst']) in seen_plain:
                    continue
                seen_plain.add((c['mode'], c['value'], c['inst']))
            for tr in ('grpc', 'rest'):
                rid = f'{i}:{tr}'
                runs.append(dict(id=rid, mode=c['mode'], transport=tr, inst=c['inst'], form=c['form'], k=c['k'],
                                 outcome=c['outcome'], value=c['value'], code=c['code']))
                expect[('carrier:' + k, rid)] = (c, tr)
        jobs.append(dict(gid='carrier:' + k, case=cs[0], runs=runs, experimental=True))
    # 3. run the real generator and the emitted libraries
    jobs.sort(key=lambda j: -len(j['runs']))
    with ProcessPoolExecutor(8, initializer=_init_worker) as ex:
        observations = list(ex.map(run_group, jobs, chunksize=1))
    # 4. compare (spec -> code) and collect traces (code -> spec)
    traces, tmeta = [], []
    by_gid = {j['gid']: j for j in jobs}
    versions = None
    for obs in observations:
        job = by_gid[obs['gid']]
        c0 = job['case']
        gkey = 'gen:' + obs['gid']
        chk.case(gkey, nontrivial=True)
        diffs = compare_gen(c0, obs)
        if diffs:
            chk.violation(gkey, '; '.join(diffs), dict(case=c0, api=concretise(c0, job['experimental']),
                                                        observed={k: v for k, v in obs.items() if k != 'runs'}))
        if obs['driver_error']:
            # import / construction failures of the emitted client are recorded by the driver as `crash` events;
            # a driver that dies is a harness problem, not a verdict
            raise core.MachineryError(f"lro driver failed for {obs['gid']}:\n" + obs['driver_error'])
        g = gen_event(obs)
        cdict = dict(ann=c0['ann'], out=c0['out'], rsp=c0['rsp'], mta=c0['mta'], fld=c0['fld'], form=c0['form'])
        if not job['runs'] or obs['gen'] == 'fail':
            traces.append(dict(c=cdict, h=dict(k=c0['k'], outcome=c0['outcome'], value=c0['value'], code=c0['code']),
                               mode=c0['mode'], inst=c0['inst'], events=[g]))
            tmeta.append((gkey, c0, obs))
            continue
        versions = obs.get('versions') or versions
        if {r['id'] for r in obs['runs']} != {r['id'] for r in job['runs']}:
            raise core.MachineryError(f"lro driver returned {len(obs['runs'])} of {len(job['runs'])} runs for {obs['gid']}")
        for run in obs['runs']:
            c, tr = expect[(obs['gid'], run['id'])]
            rkey = 'run:' + ('carrier:' if job['experimental'] else '') + run_key(c, tr)
            chk.case(rkey, nontrivial=True)
            d2 = compare_run(c, run['events'])
            if d2:
                chk.violation(rkey, '; '.join(d2), dict(case=c, transport=tr, api=concretise(c0, job['experimental']),
                                                        events=run['events'], error=run.get('error')))
            traces.append(dict(c=dict(cdict, form=c['form']),
                               h=dict(k=c['k'], outcome=c['outcome'], value=c['value'], code=c['code']),
                               mode=c['mode'], inst=c['inst'], events=[g] + [ev(**e) for e in run['events']]))
            tmeta.append((rkey, c, run))
    # 5. code -> spec: batched trace validation
    accepted, rejected, runs_ = tlc.validate_all('LroTrace', 'LroTrace.cfg', traces, timeout=1500, max_rejects=8)
    for r4 in runs_:
        chk.states += r4.distinct
        chk.transitions += r4.generated
    chk.tlc_runs.append(dict(label='LroTrace batch', runs=len(runs_), accepted=accepted, rejected=len(rejected)))
    chk.traces += accepted
    for idx, t, info in rejected:
        key, c, what = tmeta[idx]
        chk.violation('trace:' + key, f'LroTrace rejected the recorded behaviour: {info}', dict(case=c, trace=t, info=info))
    chk.rule = ('cases = resolution cases enumerated by TLC (annotation x output x {relative, fully-qualified, empty} x '
                '{same file, imported, not imported before/after the service file, google.protobuf.Empty} for response and '
                'metadata), each generated by the real generator; runs = operation histories NotDone^k.Done(response|error), '
                'k in 0..3, x {sync, asyncio} x {grpc, rest} executed against the emitted library; carrier cases also x request '
                'field name {name, operation, operation_async} x call form {request object, flattened keyword}; every executed '
                'generation and every run is non-trivial; distinct by (resolution case) resp. (case, mode, transport, history)')
    for t in traces[:1] + traces[len(traces) // 2:len(traces) // 2 + 2] + traces[-2:]:
        chk.sample(dict(c=t['c'], h=t['h'], mode=t['mode'],
                        events=[{k: v for k, v in e.items() if v not in ('', 0)} for e in t['events']]))
    chk.assumptions += [
        'loopback gRPC / HTTP servers; replies built with google.longrunning.operations_pb2 and the INPUT descriptors',
        'virtual time: the `time` / `asyncio.sleep` names of google.api_core.retry are replaced; polling intervals are not compared',
        'two client instances per (mode, transport) live in one driver process, each on its own recorded channel / REST '
        'transport to its own loopback server; channel of a call (grpc) = i iff it reached server i and is accounted for '
        'by the log of the recorded channel of instance i (transport host also points at server i, so a fresh channel '
        'would be seen as channel 0); (rest) = i iff it reached HTTP server i with that Host',
        'resolution cases run through instance 1; carrier cases through instance 1 and 2 (interleaved in one process)',
        'resolution cases without operation_info are generated without a service YAML (no Operations mixin); every other '
        'library is generated with the YAML that declares the mixin and the GetOperation http rule',
        'asyncio x rest uses the experimental rest_asyncio transport (rest_async_io_enabled) and is exercised for the '
        'carrier cases only; all other cases run sync/grpc, sync/rest, asyncio/grpc',
        'an operation error "surfaces" = result() raises a GoogleAPICallError carrying the operation\'s status code; '
        'the exception subclass is not compared',
        'a rejected generation = the generator raises a TypeError-class exception',
        f'api-core / grpc versions: {versions}',
    ]
    chk.extra['generated_libraries'] = len(jobs)
    chk.extra['runs'] = sum(len(o['runs']) for o in observations)


main.level = 'model_checking'
