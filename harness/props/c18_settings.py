"""C18 generation-time clause: every settings list enumerated by spec/Settings.tla is given to the real generator."""
import copy
import random
from concurrent.futures import ProcessPoolExecutor

from .. import callrun, gen, tlc, absapi


def _gen(case):
    import warnings
    warnings.simplefilter('ignore')
    api = callrun.carrier_api()
    api = copy.deepcopy(api)
    pkg = callrun.PKG
    if case.get('layout') == 'sub':
        # every service (and message) of the API package moves into the proto sub-package <pkg>.services
        import json
        pkg = callrun.PKG + '.services'
        api = json.loads(json.dumps(api).replace(callrun.PKG, pkg))
        # ... next to a second sub-package, so that the API package itself (acme.call.v1) holds no service at all
        api['files'].append(dict(name='acme/call/v1/resources/extra.proto', package=callrun.PKG + '.resources',
                                 messages=[dict(name='Extra', fields=[dict(name='name')])]))
    if case.get('layout') == 'mixed':
        # the service of the settings stays in the API package; a second service lives in the sub-package <pkg>.admin
        P = callrun.PKG + '.admin'
        api['files'].append(dict(name='acme/call/v1/admin/admin.proto', package=P, messages=[dict(name='ResetRequest', fields=[dict(name='name')])],
                                 services=[dict(name='Admin', methods=[{'name': 'Reset', 'in': f'.{P}.ResetRequest', 'out': f'.{P}.ResetRequest',
                                                                        'http': [{'verb': 'post', 'uri': '/v1/admin:reset', 'body': '*'}],
                                                                        'sigs': [], 'cs': False, 'ss': False}])]))
    ms = []
    for e in case['settings']:
        ent = {'selector': f"{pkg}.Things.{e['selector']}"}
        if e['fields']:
            ent['auto_populated_fields'] = list(e['fields'])
        if e.get('lro'):
            ent['long_running'] = {'initial_poll_delay': '5s', 'poll_delay_multiplier': 1.5, 'max_poll_delay': '60s', 'total_poll_timeout': '600s'}
        ms.append(ent)
    api['yaml']['publishing'] = {'method_settings': ms}
    with gen.scratch() as work:
        try:
            gen.generate_api(api, dict(transport=['grpc'], snippets=False), work)
            return 'generated', ''
        except Exception as ex:
            return type(ex).__name__, str(ex)[:300]


def run(chk):
    r = tlc.run('Settings', 'Settings.cfg', deadlock=False)
    chk.add_tlc(r, 'Settings model check')
    cases, r2 = tlc.emit_cases('Settings', 'Settings.emit.cfg', deadlock=False)
    chk.add_tlc(r2, 'Settings case emission')
    if chk.tier == 'quick':
        rnd = random.Random(chk.seed)
        single = [c for c in cases if len(c['settings']) <= 1]
        double = [c for c in cases if len(c['settings']) == 2]
        triple = [c for c in cases if len(c['settings']) > 2]       # duplicate selectors, adjacent and not: always all of them
        tuning = [c for c in double if any(e.get('lro') for e in c['settings'])]      # tuning-only entries: always all of them
        double = [c for c in double if c not in tuning]
        cases = single + triple + tuning + rnd.sample(double, min(120, len(double)))
    with ProcessPoolExecutor(14) as ex:
        outs = list(ex.map(_gen, cases, chunksize=4))
    for c, (got, msg) in zip(cases, outs):
        k = 'settings:' + ('' if c.get('layout', 'root') == 'root' else c['layout'] + ':') + ';'.join(
            f"{e['selector']}[{','.join(sorted(e['fields']))}]" + ('+lro' if e.get('lro') else '') for e in c['settings'])
        chk.case(k, nontrivial=len(c['settings']) > 0)
        if got != c['expect']:
            chk.violation(k, f"generation outcome {got} ({msg}) but the specification predicts {c['expect']}", dict(case=c, got=got, msg=msg))
    chk.extra['settings_lists'] = len(cases)
