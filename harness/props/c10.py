"""C10 - generation is a pure, deterministic function of the request.

spec      : spec/Determinism.tla - self-composition of K runs; every set-typed container is consumed under an arbitrary
            iteration order, each site applies the ordering discipline the code applies; Inv_Deterministic; two table mutants
            (a site without its sort, a sort key with ties) that TLC must reject.
binding   : the REAL `python -m gapic.cli.generate` is run as separate processes on the same request under several PYTHONHASHSEED
            values and two working directories; responses must be byte-identical.  The env-guarded hooks report the order in which
            each process iterated the set-typed containers, so the evidence states how many containers were really iterated in
            different orders (a comparison in which all orders coincide proves nothing).  Runs validated by DeterminismTrace.tla.
inputs    : APIs built to have >= 2 elements in every container and equal sort keys where protoc allows them (several resources incl.
            equal short type names, imports, services, retryable codes, collisions) + feature sets sampled by TLC from Features.tla.
"""
import hashlib
import json
import os
import random
import tempfile
from concurrent.futures import ThreadPoolExecutor

from .. import absapi, core, features, featrun, gen, tlc

SEEDS_QUICK = ['0', '1', '2', '11']
SEEDS_THOROUGH = [str(x) for x in (0, 1, 2, 3, 5, 7, 11, 13, 17, 23, 42, 99, 123, 1000, 4242, 31337)]


def stress_api(variant):
    """carrier with >= 2 of everything that lives in a set inside the schema."""
    F = ['r_resource', 's_two_services', 'm_lro', 'f_map', 'f_crossfile', 'f_enum', 'f_nested', 'o_grpc_rest', 'o_metadata', 's_flatten',
         'r_file_level', 'f_deppkg', 'f_wkt', 'm_paged_map', 's_required']
    if variant % 2:
        F += ['o_mixins', 's_routing', 'm_sstream', 'm_raw_operation', 's_uuid4']
    api, opts = features.build(F)
    main = [f for f in api['files'] if f['name'].endswith('library.proto')][0]
    # equal short resource type names under different domains (equal sort keys), plus more resources
    main['messages'].append(dict(name='Tome', fields=[dict(name='name')], resource=dict(type='other.example.com/Book', patterns=['tomes/{tome}'])))
    main['messages'].append(dict(name='Zine', fields=[dict(name='name')], resource=dict(type='lib.example.com/Zine', patterns=['zines/{zine}'])))
    # ... and resource types that differ ONLY in case (they tie under a case-insensitive sort)
    main['messages'].append(dict(name='Folio', fields=[dict(name='name')], resource=dict(type='lib.example.com/Folio', patterns=['folios/{folio}'])))
    main['messages'].append(dict(name='FolioUpper', fields=[dict(name='name')], resource=dict(type='lib.example.com/FOLIO', patterns=['bigfolios/{folio}'])))
    main['messages'].append(dict(name='Atlas', fields=[dict(name='name')], resource=dict(type='lib.example.com/Atlas', patterns=['atlases/{atlas}', 'shelves/{shelf}/atlases/{atlas}'])))
    book = [m for m in main['messages'] if m['name'] == 'Book'][0]
    book['fields'] += [dict(name='tome', type='Tome'), dict(name='zine', type='Zine'), dict(name='atlas', type='Atlas'),
                       dict(name='folio', type='Folio'), dict(name='folio_upper', type='FolioUpper'),
                       dict(name='trace_id', uuid4=True)]        # a UUID4-format field in a RESPONSE (its mock value is printed into the emitted tests)
    codes = ['UNAVAILABLE', 'DEADLINE_EXCEEDED', 'ABORTED', 'INTERNAL', 'RESOURCE_EXHAUSTED', 'UNKNOWN']
    api['retry'] = {'methodConfig': [
        {'name': [{'service': 'acme.lib.v1.Library'}], 'timeout': '30s',
         'retryPolicy': {'maxAttempts': 3, 'initialBackoff': '0.1s', 'maxBackoff': '1s', 'backoffMultiplier': 2,
                         'retryableStatusCodes': codes[:4 + variant % 3]}},
        {'name': [{'service': 'acme.lib.v1.BookAdmin', 'method': 'Audit'}], 'timeout': '5s',
         'retryPolicy': {'maxAttempts': 2, 'initialBackoff': '0.2s', 'maxBackoff': '2s', 'backoffMultiplier': 1.5,
                         'retryableStatusCodes': codes[2:6]}}]}
    return api, opts


# handwritten sample configuration (option samples=<relative path>): two samples whose ids collide (the generator disambiguates
# them with a hash of the spec) and one without id or region tag (the generator invents one) - nothing of it may depend on
# where the file lives
SAMPLE_CONFIG = """\
---
type: com.google.api.codegen.samplegen.v1p2.SampleConfigProto
schema_version: 1.2.0
samples:
- id: library_get_book
  region_tag: library_get_book_by_name
  description: Fetch one book
  rpc: GetBook
  service: acme.lib.v1.Library
  request:
  - field: name
    value: shelves/1/books/2
- region_tag: library_get_book
  description: Fetch another book
  rpc: GetBook
  service: acme.lib.v1.Library
  request:
  - field: name
    value: shelves/3/books/4
- description: List the books of a shelf
  rpc: ListBooks
  service: acme.lib.v1.Library
  region_tag: ""
  request:
  - field: parent
    value: shelves/5
"""


def orders_of(events):
    """hook events -> {site: order} with elements numbered by sorted position (pure renumbering)."""
    out = {}

    def num(seq):
        idx = {x: i + 1 for i, x in enumerate(sorted(set(map(str, seq))))}
        return [idx[str(x)] for x in seq]
    for e in events:
        if e['ev'] == 'Service':
            for k in ('resource_order', 'names_order'):
                if isinstance(e.get(k), list) and len(e[k]) > 1:
                    out[f"{k}:{e['service']}"] = num(e[k])
        elif e['ev'] == 'Method':
            r = e.get('retry')
            if isinstance(r, dict) and len(r.get('codes_order', [])) > 1:
                out[f"retry_codes:{e['service']}.{e['name']}"] = num(r['codes_order'])
            q = e.get('query_params_order')
            if isinstance(q, list) and len(q) > 1:
                out[f"query_params:{e['service']}.{e['name']}"] = num(q)
        elif e['ev'] == 'Proto' and e.get('target') and isinstance(e.get('names_order'), list) and len(e['names_order']) > 1:
            out['proto_names:' + '/'.join(e['file'])] = num(e['names_order'])
    return out


# "... and wall-clock time": one process of every comparison runs with its clock set years ahead (a sitecustomize module, found
# through PYTHONPATH, replaces datetime.date / datetime.datetime by subclasses with shifted today()/now()/utcnow() and shifts
# time.time / time.localtime / time.gmtime / time.strftime defaults)
CLOCK_SHIFT = r'''
import datetime as _dt, time as _t, os as _os
_D = int(_os.environ.get('VERIF_CLOCK_SHIFT_DAYS', '0'))
if _D:
    _delta = _dt.timedelta(days=_D)
    _date, _datetime = _dt.date, _dt.datetime
    class date(_date):
        @classmethod
        def today(cls):
            return _date.today() + _delta
    class datetime(_datetime):
        @classmethod
        def now(cls, tz=None):
            return _datetime.now(tz) + _delta
        @classmethod
        def utcnow(cls):
            return _datetime.utcnow() + _delta
        @classmethod
        def today(cls):
            return _datetime.today() + _delta
    _dt.date, _dt.datetime = date, datetime
    _time, _localtime, _gmtime, _strftime = _t.time, _t.localtime, _t.gmtime, _t.strftime
    _t.time = lambda: _time() + _D * 86400.0
    _t.localtime = lambda secs=None: _localtime(_t.time() if secs is None else secs)
    _t.gmtime = lambda secs=None: _gmtime(_t.time() if secs is None else secs)
    _t.strftime = lambda fmt, t=None: _strftime(fmt, _t.localtime() if t is None else t)
'''


def clock_dir(work):
    d = os.path.join(work, 'clock')
    if not os.path.isdir(d):
        os.makedirs(d)
        with open(os.path.join(d, 'sitecustomize.py'), 'w') as f:
            f.write(CLOCK_SHIFT)
    return d


def run_one(args):
    req_bytes, seed, cwd = args[:3]
    shift = args[3] if len(args) > 3 else None
    fd, tf = tempfile.mkstemp(prefix='gapicverif-det-', suffix='.ndjson'); os.close(fd)
    try:
        env = {'PYTHONHASHSEED': seed, gen.GUARD: tf}
        if shift:
            env['VERIF_CLOCK_SHIFT_DAYS'] = str(shift[1])
            env['PYTHONPATH'] = os.pathsep.join([shift[0]] + ([os.environ['PYTHONPATH']] if os.environ.get('PYTHONPATH') else []))
        rc, out, err = gen.generate_subprocess(req_bytes, env=env, cwd=cwd, timeout=600)
        with open(tf) as f:
            events = [json.loads(l) for l in f if l.strip()]
    finally:
        os.remove(tf)
    return rc, hashlib.sha256(out).hexdigest(), err[-400:], orders_of(events), out


WARM = r'''
import io, sys
from gapic.cli import generate
out = None
for path in sys.argv[1:]:
    with open(path, 'rb') as f:
        b = f.read()
    out = io.BytesIO()
    generate.generate.callback(request=io.BytesIO(b), output=out)
sys.stdout.buffer.write(out.getvalue())
'''


def other_requests(api, opts, work):
    """requests that share every NAME with the request under test but differ in content: (a) the same API in the next version
    of the package (acme.lib.v1 -> acme.lib.v2: relative names now resolve elsewhere), (b) the same package with every resource
    pattern changed.  Generated BEFORE the request under test in one process, they must not influence its response."""
    import copy
    txt = json.dumps(api)
    for a, b in (('acme.lib.v1', 'acme.lib.v2'), ('acme/lib/v1', 'acme/lib/v2')):
        txt = txt.replace(a, b)
    v2 = json.loads(txt)
    alt = copy.deepcopy(api)
    seen_vars = [0]

    def walk(x):
        if isinstance(x, dict):
            if isinstance(x.get('patterns'), list):
                seen_vars[0] += 1
                x['patterns'] = [p if p == '*' else 'zones/{zone%d}/' % seen_vars[0] + p for p in reversed(x['patterns'])]
            for v in x.values():
                walk(v)
        elif isinstance(x, list):
            for v in x:
                walk(v)
    # (c) the same API without its module-name collisions (a field named like the other file's module needs an import alias in
    # the request under test and none in this twin)
    noalias = json.loads(json.dumps(api).replace('"name": "common"', '"name": "commonx"').replace('name,common"', 'name,commonx"'))
    walk(alt)
    walk(v2)          # the twin in the next version differs in its patterns as well (first-wins and last-wins memos both see a difference)
    out = []
    for k, a in (('v2', v2), ('alt', alt), ('noalias', noalias)):
        d = os.path.join(work, 'hist-' + k); os.makedirs(d, exist_ok=True)
        out.append(absapi.build_request(a, gen.option_string(opts, d, a)).SerializeToString())
    return out


def run_warm(args):
    """one process that generates the requests in `paths` in order; returns the LAST response."""
    paths, seed = args[:2]
    cwd = args[2] if len(args) > 2 else None
    e = dict(os.environ); e['PYTHONHASHSEED'] = seed; e.pop(gen.GUARD, None)
    import subprocess
    r = subprocess.run([gen.PY, '-W', 'ignore', '-c', WARM] + paths, capture_output=True, env=e, cwd=cwd, timeout=1800)
    return r.returncode, hashlib.sha256(r.stdout).hexdigest(), r.stderr.decode('utf-8', 'replace')[-400:], {}, r.stdout


def main(chk, args):
    quick = chk.tier == 'quick'
    rnd = random.Random(chk.seed)
    r = tlc.run('Determinism', 'Determinism.cfg' if quick else 'CONSTANTS K = 3 MaxElems = 4 Mutant = "none"\nSPECIFICATION Spec\nINVARIANT Inv_Deterministic\nPROPERTY Live\n',
                deadlock=False, timeout=1200)
    chk.add_tlc(r, 'Determinism model check')
    for mut in ('unsorted_site', 'tie_key', 'set_order_defaults', 'process_memo'):
        rm = tlc.run('Determinism', f'CONSTANTS K = 2 MaxElems = 3 Mutant = "{mut}"\nSPECIFICATION Spec\nINVARIANT Inv_Deterministic\n', deadlock=False, timeout=600)
        chk.tlc_runs.append(dict(label=f'Determinism mutant {mut}', **rm.summary()))
        if rm.violated != 'Inv_Deterministic':
            raise core.MachineryError(f'spec mutant {mut} was not rejected by TLC')
    seeds = SEEDS_QUICK if quick else SEEDS_THOROUGH
    fcases = featrun.get_cases(chk, True, chk.seed, n_pairs_quick=0, n_sim_quick=4 if quick else 40)
    fcases = [c for c in fcases if len(c['features']) > 3]
    inputs = [('stress%d' % v,) + stress_api(v) for v in range(2 if quick else 6)]
    inputs.append(('samples-config',) + stress_api(0))
    # selective generation (omit mode): the allow-list of addresses is a set; >= 2 surviving messages per file
    sapi, sopts = stress_api(0)
    sapi['yaml'] = {'type': 'google.api.Service', 'config_version': 3, 'name': 'lib.example.com', 'publishing': {'library_settings': [
        {'version': 'acme.lib.v1', 'python_settings': {'common': {'selective_gapic_generation': {'methods': [
            'acme.lib.v1.Library.' + m for m in ('GetBook', 'CreateBook', 'ListBooks', 'StampBook', 'ExportBooks', 'GetAuthor')]
            + ['acme.lib.v1.BookAdmin.Audit']}}}}]}}
    inputs.append(('selective-omit', sapi, sopts))
    # the alternative template set named by a RELATIVE directory; one of the two working directories holds a directory of
    # that very name (the generator's own directory is what the option means, whatever the process was started in)
    aapi, aopts = features.build(['o_ads', 'r_resource', 's_two_services', 'm_lro', 'f_map', 'f_enum', 'f_nested', 's_flatten', 'r_file_level',
                                  'm_paged_map', 's_required'])
    inputs.append(('ads-relative', aapi, aopts))
    inputs += [(featrun.key_of(c),) + features.build(c['features']) for c in fcases]
    traces = []
    with gen.scratch() as work:
        cwd1 = os.path.join(work, 'here'); cwd2 = os.path.join(work, 'deeper', 'elsewhere')
        for d in (cwd1, cwd2):
            os.makedirs(os.path.join(d, 'cfg'))
            with open(os.path.join(d, 'cfg', 'samples.yaml'), 'w') as f:
                f.write(SAMPLE_CONFIG)
        os.makedirs(os.path.join(cwd2, 'ads-templates', 'decoy'))
        with open(os.path.join(cwd2, 'ads-templates', 'decoy', 'README.txt.j2'), 'w') as f:
            f.write('not the generator\'s template set\n')
        for name, api, opts in inputs:
            ostr = gen.option_string(opts, work, api)
            if name == 'samples-config':
                ostr += ',samples=cfg/samples.yaml'        # relative: resolved against the working directory of each process
            creq = absapi.build_request(api, ostr)
            b = creq.SerializeToString()
            jobs = [(b, s, cwd1 if i % 2 == 0 else cwd2) for i, s in enumerate(seeds)]
            jobs[-1] = jobs[-1] + ((clock_dir(work), 5 * 366 + 40),)          # the last process lives five years and forty days later
            # purity: the same request generated in a process that generated other requests (same names, other content) or
            # the same request before
            wdir = os.path.join(work, 'warm-' + hashlib.sha1(name.encode()).hexdigest()[:8]); os.makedirs(wdir)
            paths = []
            for k, rb in enumerate(other_requests(api, opts, wdir) + [b]):
                paths.append(os.path.join(wdir, f'req{k}.bin'))
                with open(paths[-1], 'wb') as f:
                    f.write(rb)
            warm = ([([paths[0], paths[-1]], seeds[0], cwd1), ([paths[1], paths[-1]], seeds[1], cwd2), ([paths[2], paths[-1]], seeds[0], cwd2),
                     ([paths[-1], paths[-1]], seeds[-1], cwd1)]
                    if name.startswith('stress') or name in ('selective-omit', 'ads-relative') or not quick else [])
            with ThreadPoolExecutor(8) as ex:
                fw = [ex.submit(run_warm, w) for w in warm]
                res = list(ex.map(run_one, jobs))
                wres = [f.result() for f in fw]
            hist = ['fresh'] * len(res) + ['after_other', 'after_other', 'after_other', 'after_same'][:len(wres)]
            res += wres
            digests = []
            events = []
            bad = [x for x in res if x[0] != 0]
            if bad:
                chk.violation(f'gen:{name}', f'generator process failed: {bad[0][2]}', dict(input=name))
                continue
            for i, (rc, dg, err, orders, out) in enumerate(res):
                if dg not in digests:
                    digests.append(dg)
                for site, order in sorted(orders.items()):
                    events.append(dict(ev='iterate', run=i + 1, site=site, order=order, digest=0))
                events.append(dict(ev='respond', run=i + 1, site='', order=[], digest=digests.index(dg) + 1, history=hist[i]))
            varied = len({s for s in {e['site'] for e in events if e['ev'] == 'iterate'}
                          if len({tuple(e['order']) for e in events if e['ev'] == 'iterate' and e['site'] == s}) > 1})
            chk.case(name, nontrivial=varied > 0)
            chk.extra.setdefault('containers_iterated_in_different_orders', {})[name] = varied
            if len(digests) > 1:
                # name the first differing file for the report
                from google.protobuf.compiler import plugin_pb2
                a = plugin_pb2.CodeGeneratorResponse.FromString(res[0][4])
                first = None
                for x in res[1:]:
                    if x[1] != res[0][1]:
                        bb = plugin_pb2.CodeGeneratorResponse.FromString(x[4])
                        for f0, f1 in zip(a.file, bb.file):
                            if f0.name != f1.name or f0.content != f1.content:
                                first = f0.name; break
                        break
                fresh = {x[1] for x, h in zip(res, hist) if h == 'fresh'}
                if len(fresh) > 1:
                    chk.violation(f'nondeterministic:{name}', f'{len(fresh)} different responses over PYTHONHASHSEED {seeds} / two working '
                                                              f'directories; first differing file: {first}', dict(input=name, seeds=seeds))
                for x, h in zip(res, hist):
                    if h != 'fresh' and x[1] not in fresh:
                        bb = plugin_pb2.CodeGeneratorResponse.FromString(x[4])
                        diff = [f0.name for f0, f1 in zip(a.file, bb.file) if f0.name != f1.name or f0.content != f1.content][:3]
                        chk.violation(f'impure:{h}:{name}', f'the response differs when the process generated '
                                      f'{"requests with the same names but other content" if h == "after_other" else "the same request"} '
                                      f'before; differing files: {diff}', dict(input=name, history=h))
            traces.append((name, dict(runs=len(res), events=events)))
    accepted, rejected, runs = tlc.validate_all('DeterminismTrace', 'DeterminismTrace.cfg', [t for _, t in traces], timeout=900)
    for r3 in runs:
        chk.states += r3.distinct; chk.transitions += r3.generated
        for v in r3.tagged.get('VARIED', []):
            chk.extra['varied_sites_counted_by_tlc'] = chk.extra.get('varied_sites_counted_by_tlc', 0) + int(v)
    chk.tlc_runs.append(dict(label='DeterminismTrace batch', runs=len(runs), accepted=accepted, rejected=len(rejected)))
    chk.traces += accepted
    for idx, t, info in rejected:
        chk.violation('trace:nondeterministic:' + traces[idx][0], f'DeterminismTrace rejected the runs: {info}')
    chk.rule = (f'each case = one request generated by separate processes under PYTHONHASHSEED in {seeds} and two working directories; '
                'inputs: stress APIs with >= 2 elements per set-typed container and equal sort keys + TLC-sampled feature sets; '
                'non-trivial = at least one container was iterated in two different orders across the processes (reported by hooks); '
                'purity: two more runs per stress input in processes that first generated the v2 twin + a pattern-perturbed twin of the '
                'API, resp. the same request')
    for name, t in traces[:2]:
        chk.sample(dict(input=name, events=t['events'][:6]))
    chk.assumptions += ['wall-clock independence is covered only in so far as the runs happen at different times',
                        'hook events (iteration orders) are emitted with the guard on in every compared process; the guard does not change the response',
                        'wall-clock time: one process per comparison runs with datetime / time shifted five years ahead (Python-level clock only)']


main.level = 'model_checking'
