"""C05 - flattened keyword arguments are equivalent to an explicit request object.

spec      : spec/Call.tla (ApplyFlattened/Overlay, RejectMixed; Inv_Payload with Intended = flattened fields on an empty request,
            Inv_MixedRejected, Inv_OnlyMixedRejected); parameter order = Methods[m].flat.
spec->code: kwargs-calls and mixed calls replayed on sync, asyncio and REST clients; decoded payload compared with the PREDICTED
            valuation (not merely with the request-form call); inspect.signature compared with the declared order.
code->spec: CallTrace.tla.
"""
from .. import callrun, gen, core
import os


def signatures(ppd=False):
    """inspect.signature of every client method of the emitted carrier (sync and asyncio); ppd: option proto-plus-deps."""
    import json, subprocess
    names = [m['snake'] for m in callrun.METHODS.values()]
    api = callrun.carrier_api()
    code = r'''
import sys, json, inspect, importlib
mod = importlib.import_module(sys.argv[1])
out = {}
for cls in (mod.ThingsClient, mod.ThingsAsyncClient):
    for name in json.loads(sys.argv[2]):
        sig = inspect.signature(getattr(cls, name))
        out[cls.__name__ + '.' + name] = [p for p in sig.parameters if p not in ('self', 'request', 'requests', 'retry', 'timeout', 'metadata')]
print(json.dumps(out))
'''
    with gen.scratch() as work:
        api, root = callrun.materialise_carrier(work, ppd=ppd)
        e = dict(os.environ); e['PYTHONPATH'] = root
        r = subprocess.run([gen.PY, '-W', 'ignore', '-c', code, callrun.MODULE, json.dumps(names)], capture_output=True, text=True, env=e, cwd=root)
        if r.returncode:
            raise core.MachineryError('signature probe failed: ' + r.stderr[-800:])
        return json.loads(r.stdout.strip().splitlines()[-1])


def param_order(chk, got, dep_enum):
    """parameter lists vs the flattened order the specification declares."""
    cases, _ = callrun.tlc.emit_cases('Call', callrun._cfg('Call.emit.small.cfg', dep_enum), deadlock=False, simulate=400, depth=8,
                                      seed=chk.seed, timeout=600)
    flat = {c['method']: c['flat'] for c in cases}
    pname = lambda f: {'inner.name': 'name', 'inner.tags': 'tags', 'class': 'class_'}.get(f, f)
    for m, fl in flat.items():
        want = [pname(f) for f in fl]
        for cls in ('ThingsClient', 'ThingsAsyncClient'):
            k = f'signature:{cls}.{callrun.METHODS[m]["snake"]}'
            chk.case(k, nontrivial=len(want) > 1)
            if got.get(f'{cls}.{callrun.METHODS[m]["snake"]}') != want:
                chk.violation(k, f'parameters {got.get(cls + "." + callrun.METHODS[m]["snake"])} != declared order {want}')


def proto_plus_deps_run(chk):
    """the same property with option proto-plus-deps=other.dep.v1: the dependency-package request of CheckDep is then a proto-plus
    type of a second generated library.  Which of its non-primitive signature entries (enum `kind`, map `labels`) the clients
    offer as keywords is read off inspect.signature (today: none); whatever is offered must work like any other keyword and
    sync and asyncio clients must offer the same."""
    got = signatures(ppd=True)
    offered = {cls: [p for p in got.get(f'{cls}.check_dep', []) if p in ('kind', 'labels')] for cls in ('ThingsClient', 'ThingsAsyncClient')}
    chk.case('ppd:signature:dep-extras-offered', nontrivial=True)
    if offered['ThingsClient'] != offered['ThingsAsyncClient']:
        chk.violation('ppd:signature:dep-extras-offered:sync-async-differ',
                      f'[proto-plus-deps] sync and asyncio clients disagree on the flattened parameters of check_dep: {offered}')
    extras = set(offered['ThingsClient']) | set(offered['ThingsAsyncClient'])
    cases, _ = callrun.tlc.emit_cases('Call', callrun._cfg('Call.emit.small.cfg', extras), deadlock=False, timeout=1800)
    cases = [c for c in cases if c['method'] == 'CheckDep' and c['form'] in ('kwargs', 'both', 'msg', 'dict', 'none')]
    rnd = __import__('random').Random(chk.seed)
    must = [c for c in cases if c['form'] == 'kwargs' and any(c['args']['kw'].get(x) for x in extras)]
    rest = [c for c in cases if c not in must]
    cases = must[:150] + rnd.sample(rest, min(len(rest), 250))
    pairs = callrun.run(chk, cases, nshards=6, ppd=True)
    traces = []
    for c, o in pairs:
        k = 'ppd:' + callrun.key_of(c)
        chk.case(k, nontrivial=True)
        if o.get('error'):
            chk.violation(k, '[proto-plus-deps] driver error: ' + o['error'], dict(case=c, obs=o)); continue
        d = callrun.compare(c, o)
        if d:
            chk.violation('replay:' + k, '[proto-plus-deps] ' + '; '.join(d[:5]), dict(case=c, obs=o))
        traces.append((k, callrun.trace_of(c, o)))
    accepted, rejected, runs = callrun.tlc.validate_all('CallTrace', callrun._cfg('CallTrace.cfg', extras), [t for _, t in traces], timeout=1500)
    for r in runs:
        chk.states += r.distinct; chk.transitions += r.generated
    chk.tlc_runs.append(dict(label='CallTrace batch (C05, proto-plus-deps)', runs=len(runs), accepted=accepted, rejected=len(rejected)))
    chk.traces += accepted
    for idx, t, info in rejected:
        chk.violation('trace:' + traces[idx][0], f'CallTrace rejected the recorded call (proto-plus-deps): {info}', dict(trace=t, info=info))
    chk.extra['proto_plus_deps_extras_offered'] = sorted(extras)


def main(chk, args):
    quick = chk.tier == 'quick'
    sel = lambda c: c['form'] in ('kwargs', 'both') or (c['form'] == 'msg' and c['method'] in ('UpdateThing', 'CheckDep') and not c['cs'])
    got = signatures()
    # does a client offer the ENUM field of the dependency-package request as a keyword?  (named deviation: today neither does)
    offered = {cls: 'kind' in got.get(f'{cls}.check_dep', []) for cls in ('ThingsClient', 'ThingsAsyncClient')}
    dep_enum = all(offered.values())
    chk.case('signature:dep-enum-offered', nontrivial=True)
    if len(set(offered.values())) > 1:
        chk.violation('signature:dep-enum-offered:sync-async-differ', f'sync and asyncio clients disagree on the flattened parameters of check_dep: {offered}')
        dep_enum = True      # judge every client that offers it
    cases = callrun.get_cases(chk, quick, chk.seed, select=sel, n_quick=2500, dep_enum=dep_enum)
    if dep_enum:
        # make sure the enum keyword is exercised on every transport
        extra = [c for c in callrun.tlc.emit_cases('Call', callrun._cfg('Call.emit.small.cfg', True), deadlock=False, timeout=1800)[0]
                 if c['method'] == 'CheckDep' and c['form'] == 'kwargs' and c['args']['kw'].get('kind')]
        cases += extra[:60]
    callrun.check(chk, cases, 'C05', dep_enum=dep_enum)
    param_order(chk, got, dep_enum)
    proto_plus_deps_run(chk)
    chk.extra['dependency_request_enum_offered_as_keyword'] = dep_enum
    chk.rule = ('cases = final states of Call.tla with form kwargs (all non-empty subsets <=2 of the flattened fields x 2 values) or both '
                '(request + kwargs), on sync, asyncio and REST clients, plus request-form calls of the same methods; non-trivial = all; '
                'distinct by (method, transport, form, valuations)')
    chk.assumptions += ['dependency-package request: non-primitive flattened entries (maps/messages) are not offered as parameters and are '
                        'not listed in the carrier signature (DESIGN C05)']


main.level = 'model_checking'
