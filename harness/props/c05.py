"""C05 - flattened keyword arguments are equivalent to an explicit request object.

spec      : spec/Call.tla (ApplyFlattened/Overlay, RejectMixed; Inv_Payload with Intended = flattened fields on an empty request,
            Inv_MixedRejected, Inv_OnlyMixedRejected); parameter order = Methods[m].flat.
spec->code: kwargs-calls and mixed calls replayed on sync, asyncio and REST clients; decoded payload compared with the PREDICTED
            valuation (not merely with the request-form call); inspect.signature compared with the declared order.
code->spec: CallTrace.tla.
"""
from .. import callrun, gen, core
import os


def signatures():
    """inspect.signature of every client method of the emitted carrier (sync and asyncio)."""
    import json, subprocess
    names = [m['snake'] for m in callrun.METHODS.values()]
    api = callrun.carrier_api()
    code = r'''
import sys, json, inspect, importlib
mod = importlib.import_module(sys.argv[1])
out = {}
for cls in (mod.ThingsClient, mod.ThingsAsyncClient):
    for name in json.loads(sys.argv[2]):
        sig = inspect.signature(getattr(cls, name))
        out[cls.__name__ + '.' + name] = [p for p in sig.parameters if p not in ('self', 'request', 'requests', 'retry', 'timeout', 'metadata')]
print(json.dumps(out))
'''
    with gen.scratch() as work:
        req, res = gen.generate_api(api, dict(transport=['grpc', 'rest'], snippets=False), work)
        root = gen.materialise(res, os.path.join(work, 'out'))
        from .. import pipeline
        for fdp in req.proto_file:
            if fdp.name.startswith('other/'):
                pipeline.write_pb2(fdp, root)
        e = dict(os.environ); e['PYTHONPATH'] = root
        r = subprocess.run([gen.PY, '-W', 'ignore', '-c', code, callrun.MODULE, json.dumps(names)], capture_output=True, text=True, env=e, cwd=root)
        if r.returncode:
            raise core.MachineryError('signature probe failed: ' + r.stderr[-800:])
        return json.loads(r.stdout.strip().splitlines()[-1])


def param_order(chk, got, dep_enum):
    """parameter lists vs the flattened order the specification declares."""
    cases, _ = callrun.tlc.emit_cases('Call', callrun._cfg('Call.emit.small.cfg', dep_enum), deadlock=False, simulate=400, depth=8,
                                      seed=chk.seed, timeout=600)
    flat = {c['method']: c['flat'] for c in cases}
    pname = lambda f: {'inner.name': 'name', 'class': 'class_'}.get(f, f)
    for m, fl in flat.items():
        want = [pname(f) for f in fl]
        for cls in ('ThingsClient', 'ThingsAsyncClient'):
            k = f'signature:{cls}.{callrun.METHODS[m]["snake"]}'
            chk.case(k, nontrivial=len(want) > 1)
            if got.get(f'{cls}.{callrun.METHODS[m]["snake"]}') != want:
                chk.violation(k, f'parameters {got.get(cls + "." + callrun.METHODS[m]["snake"])} != declared order {want}')


def main(chk, args):
    quick = chk.tier == 'quick'
    sel = lambda c: c['form'] in ('kwargs', 'both') or (c['form'] == 'msg' and c['method'] in ('UpdateThing', 'CheckDep') and not c['cs'])
    got = signatures()
    # does a client offer the ENUM field of the dependency-package request as a keyword?  (named deviation: today neither does)
    offered = {cls: 'kind' in got.get(f'{cls}.check_dep', []) for cls in ('ThingsClient', 'ThingsAsyncClient')}
    dep_enum = all(offered.values())
    chk.case('signature:dep-enum-offered', nontrivial=True)
    if len(set(offered.values())) > 1:
        chk.violation('signature:dep-enum-offered:sync-async-differ', f'sync and asyncio clients disagree on the flattened parameters of check_dep: {offered}')
        dep_enum = True      # judge every client that offers it
    cases = callrun.get_cases(chk, quick, chk.seed, select=sel, n_quick=2500, dep_enum=dep_enum)
    if dep_enum:
        # make sure the enum keyword is exercised on every transport
        extra = [c for c in callrun.tlc.emit_cases('Call', callrun._cfg('Call.emit.small.cfg', True), deadlock=False, timeout=1800)[0]
                 if c['method'] == 'CheckDep' and c['form'] == 'kwargs' and c['args']['kw'].get('kind')]
        cases += extra[:60]
    callrun.check(chk, cases, 'C05', dep_enum=dep_enum)
    param_order(chk, got, dep_enum)
    chk.extra['dependency_request_enum_offered_as_keyword'] = dep_enum
    chk.rule = ('cases = final states of Call.tla with form kwargs (all non-empty subsets <=2 of the flattened fields x 2 values) or both '
                '(request + kwargs), on sync, asyncio and REST clients, plus request-form calls of the same methods; non-trivial = all; '
                'distinct by (method, transport, form, valuations)')
    chk.assumptions += ['dependency-package request: non-primitive flattened entries (maps/messages) are not offered as parameters and are '
                        'not listed in the carrier signature (DESIGN C05)']


main.level = 'model_checking'
