"""C05 - flattened keyword arguments are equivalent to an explicit request object.

spec      : spec/Call.tla (ApplyFlattened/Overlay, RejectMixed; Inv_Payload with Intended = flattened fields on an empty request,
            Inv_MixedRejected, Inv_OnlyMixedRejected); parameter order = Methods[m].flat.
spec->code: kwargs-calls and mixed calls replayed on sync, asyncio and REST clients; decoded payload compared with the PREDICTED
            valuation (not merely with the request-form call); inspect.signature compared with the declared order.
code->spec: CallTrace.tla.
"""
from .. import callrun, gen, core
import os


def param_order(chk):
    """inspect.signature of every client method vs the flattened order the spec declares."""
    import json, subprocess
    cases, _ = callrun.tlc.emit_cases('Call', 'Call.emit.small.cfg', deadlock=False, simulate=400, depth=8, seed=chk.seed, timeout=600)
    flat = {c['method']: c['flat'] for c in cases}
    api = callrun.carrier_api()
    code = r'''
import sys, json, inspect, importlib
mod = importlib.import_module(sys.argv[1])
out = {}
for cls in (mod.ThingsClient, mod.ThingsAsyncClient):
    for name in json.loads(sys.argv[2]):
        sig = inspect.signature(getattr(cls, name))
        out[cls.__name__ + '.' + name] = [p for p in sig.parameters if p not in ('self', 'request', 'requests', 'retry', 'timeout', 'metadata')]
print(json.dumps(out))
'''
    with gen.scratch() as work:
        req, res = gen.generate_api(api, dict(transport=['grpc', 'rest'], snippets=False), work)
        root = gen.materialise(res, os.path.join(work, 'out'))
        from .. import pipeline
        for fdp in req.proto_file:
            if fdp.name.startswith('other/'):
                pipeline.write_pb2(fdp, root)
        names = [callrun.METHODS[m]['snake'] for m in flat]
        e = dict(os.environ); e['PYTHONPATH'] = root
        r = subprocess.run([gen.PY, '-W', 'ignore', '-c', code, callrun.MODULE, json.dumps(names)], capture_output=True, text=True, env=e, cwd=root)
        if r.returncode:
            raise core.MachineryError('signature probe failed: ' + r.stderr[-800:])
        got = json.loads(r.stdout.strip().splitlines()[-1])
    pname = lambda f: {'inner.name': 'name', 'class': 'class_'}.get(f, f)
    for m, fl in flat.items():
        want = [pname(f) for f in fl]
        for cls in ('ThingsClient', 'ThingsAsyncClient'):
            k = f'signature:{cls}.{callrun.METHODS[m]["snake"]}'
            chk.case(k, nontrivial=len(want) > 1)
            if got.get(f'{cls}.{callrun.METHODS[m]["snake"]}') != want:
                chk.violation(k, f'parameters {got.get(cls + "." + callrun.METHODS[m]["snake"])} != declared order {want}')


def main(chk, args):
    quick = chk.tier == 'quick'
    sel = lambda c: c['form'] in ('kwargs', 'both') or (c['form'] == 'msg' and c['method'] in ('UpdateThing', 'CheckDep') and not c['cs'])
    cases = callrun.get_cases(chk, quick, chk.seed, select=sel, n_quick=2500)
    callrun.check(chk, cases, 'C05')
    param_order(chk)
    chk.rule = ('cases = final states of Call.tla with form kwargs (all non-empty subsets <=2 of the flattened fields x 2 values) or both '
                '(request + kwargs), on sync, asyncio and REST clients, plus request-form calls of the same methods; non-trivial = all; '
                'distinct by (method, transport, form, valuations)')
    chk.assumptions += ['dependency-package request: non-primitive flattened entries (maps/messages) are not offered as parameters and are '
                        'not listed in the carrier signature (DESIGN C05)']


main.level = 'model_checking'
