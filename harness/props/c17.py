"""C17 - mixin RPCs are exposed exactly as configured in the service YAML.

spec      : spec/Mixins.tla  (SelectMixins, CallMixin(svc, m, kind), CallOwn(svc, m, kind); invariants = the property clause by
            clause over every client of every service; twelve spec mutants that TLC must reject)
spec->code: TLC emits one case per configuration (YAML `apis` subset x http-rule assignment from a pairwise-covering family x
            API with/without its own IAM RPCs (single service, or two services with the declaring one first / last) x transports x
            add-iam-methods x template set) with the predicted mixin method
            names per client and the predicted observables of every call.  For every configuration the REAL generator emits a
            library for a small carrier API; harness/drivers/mixins.py imports it in a fresh interpreter, lists the mixin
            methods on the sync and asyncio clients and calls each one over sync gRPC, asyncio gRPC and REST against the loopback
            servers - on two client instances (A, B) per kind, each with its own server, in the order A, B, A.  The projection of what the servers saw is compared with the prediction.
code->spec: the recorded select/call events are validated by spec/MixinsTrace.tla in one batch (every invariant of Mixins after
            every recorded step).  Calls that already disagree with the prediction are validated separately (one representative
            per violation key) so that a defect in one RPC does not hide the remaining steps of the same library.
"""
import json
import os
import random
import urllib.parse
from concurrent.futures import ProcessPoolExecutor, ThreadPoolExecutor

from .. import core, gen, tlc

PKG = 'acme.mx.v1'
SERVICE = 'Carrier'
OWN_GRPC_PREFIX = f'/{PKG}.'          # any service of the carrier API itself
OWN_REST_PREFIX = '/own/'
IAM = ('SetIamPolicy', 'GetIamPolicy', 'TestIamPermissions')
MUTANTS = ['shared_wrapped_methods', 'no_yield', 'last_service_decides', 'yield_to_any_iam_name', 'sorted_bindings', 'first_rule_wins', 'ignore_apis', 'expose_without_rule', 'async_lacks_one', 'legacy_sync_only', 'wrong_path',
           'raw_response', 'header_name_for_iam', 'no_header', 'rest_wrong_verb', 'rest_drops_body']
CALL_FIELDS = ('inst', 'svc', 'm', 'kind', 'via', 'server', 'path', 'reqtype', 'resptype', 'hkey', 'hval', 'verb', 'body', 'extra')
ASPECT = dict(server='own-transport', via='own-rpc', path='path', reqtype='request-type', resptype='response-type', hkey='routing-header',
              hval='routing-header', verb='verb', body='body', extra='body')


# ---- concretisation -------------------------------------------------------------------------------------
def module_of(tmpl):
    return 'acme.mx.v1' if tmpl == 'ads' else 'acme.mx_v1'


def carrier_api(case):
    """service Carrier with two unary methods (http rules); it declares the IAM-named RPCs of case['own'] itself, with the
    google.iam.v1 types and http rules under /own/ (so that the projection can tell them from the mixin rules).  In the
    two-service layouts a second service Other (ordinary RPCs only) is declared after / before it: case['services'] is the
    declaration order."""
    msgs = [dict(name='Thing', fields=[dict(name='name'), dict(name='count', type='int32')]),
            dict(name='GetThingRequest', fields=[dict(name='name')])]
    methods = [dict(name='GetThing', **{'in': 'GetThingRequest', 'out': 'Thing'}, http=[dict(verb='get', uri='/v1/{name=things/*}')]),
               dict(name='MakeThing', **{'in': 'Thing', 'out': 'Thing'}, http=[dict(verb='post', uri='/v1/things', body='*')])]
    for m, out in (('SetIamPolicy', 'Policy'), ('GetIamPolicy', 'Policy'), ('TestIamPermissions', 'TestIamPermissionsResponse')):
        if m in case['own']:
            methods.append(dict(name=m, **{'in': f'google.iam.v1.{m}Request', 'out': f'google.iam.v1.{out}'},
                                http=[dict(verb='post', uri='/own/v1/{resource=things/*}:' + m[0].lower() + m[1:], body='*')]))
    other = [dict(name='GetWidget', **{'in': 'GetThingRequest', 'out': 'Thing'}, http=[dict(verb='get', uri='/v1/{name=widgets/*}')]),
             dict(name='MakeWidget', **{'in': 'Thing', 'out': 'Thing'}, http=[dict(verb='post', uri='/v1/widgets', body='*')])]
    by_name = {SERVICE: dict(name=SERVICE, methods=methods), 'Other': dict(name='Other', methods=other)}
    return dict(files=[dict(name='acme/mx/v1/mx.proto', package=PKG, messages=msgs,
                            services=[by_name[sv] for sv in case['services']])])


def yaml_of(case):
    rules = []
    for r in case['rules']:
        d = {'selector': r['selector'], r['verb']: r['uri']}
        if r['body']:
            d['body'] = r['body']
        for a in r['additional']:
            b = {a['verb']: a['uri']}
            if a['body']:
                b['body'] = a['body']
            d.setdefault('additional_bindings', []).append(b)
        rules.append(d)
    return {'type': 'google.api.Service', 'config_version': 3, 'name': 'lib.example.com',
            'apis': [{'name': a} for a in case['apis']], 'http': {'rules': rules}}


def options_of(case):
    o = dict(transport=list(case['transports']), snippets=False)
    if case['legacy']:
        o['add_iam'] = True
    if case['tmpl'] == 'ads':
        o.update(templates='ads-templates', old_naming=True)
    return o


def cfg_key(c):
    api = ''.join(a.split('.')[-1][0] for a in c['apis']) or '-'          # O / I / L
    rules = ''.join(str(c['rulecode'][r['rpc']]) for r in c['table'])
    mode = own_label(c) if c['own'] else 'legacy' if c['legacy'] else 'plain'
    if c['addl'] != 'none':
        rules += '+' + c['addl']
    if c['dup']:
        rules += '+dup'
    return (f"{c['tmpl']}/apis={api}/rules={rules}/{mode}/"
            f"{'+'.join(c['transports'])}")


def own_label(case):
    """own | own-first | own-last, with the declared names when they are not all three: own[T], own[SG] .."""
    lab = {'single': 'own', 'own_first': 'own-first', 'own_last': 'own-last'}[case['layout']]
    if len(case['own']) < 3:
        lab += '[' + ''.join(m[0] for m in case['own']) + ']'
    return lab


def origin(case, rpc):
    """why the RPC is (not) expected on the clients: legacy option, an own RPC of that name, a configured mixin next to own
    RPCs of OTHER IAM names, or plainly the YAML."""
    if case['legacy'] and rpc in IAM:
        return 'legacy'
    if rpc in case['own']:
        return own_label(case)
    if case['own'] and rpc in IAM:
        return 'yaml-beside-' + own_label(case)
    return 'yaml'


# ---- running (worker processes) -------------------------------------------------------------------------
def _work(job):
    """generate with the REAL generator, materialise, drive.  Returns dict(key, gen_error | obs | drv_error)."""
    key, case = job
    api = carrier_api(case)
    api['yaml'] = yaml_of(case)
    kinds = (['grpc', 'grpc_asyncio'] if 'grpc' in case['transports'] else []) + (['rest'] if 'rest' in case['transports'] else [])
    with gen.scratch() as work:
        try:
            req, res = gen.generate_api(api, options_of(case), work)
            if res.error:
                return dict(key=key, gen_error='generator error: ' + res.error[:500])
        except Exception as e:  # the generator raised
            return dict(key=key, gen_error=f'{type(e).__name__}: {str(e)[:500]}')
        root = gen.materialise(res, os.path.join(work, 'out'))
        ok, out, err = gen.run_driver('harness.drivers.mixins', root, dict(
            module=module_of(case['tmpl']), services=[dict(service=sv, service_snake=sv.lower()) for sv in case['services']], kinds=kinds, rpcs=case['table'], order=['A', 'B', 'A']), timeout=600)
        if not ok:
            return dict(key=key, drv_error=err[-2500:])
        return dict(key=key, obs=out)


# ---- projection (purely syntactic) -----------------------------------------------------------------------
def project_present(case, names):
    by_snake = {r['snake']: r['rpc'] for r in case['table']}
    got = {by_snake[n] for n in (names or [])}
    return [r['rpc'] for r in case['table'] if r['rpc'] in got]


def project_header(headers):
    """x-goog-request-params values seen by the server -> (key, value) ; several pairs are joined with '&'."""
    pairs = []
    for h in headers:
        for kv in h.split('&'):
            k, _, v = kv.partition('=')
            pairs.append((urllib.parse.unquote_plus(k), urllib.parse.unquote_plus(v)))
    return '&'.join(k for k, _ in pairs), '&'.join(v for _, v in pairs)


def project_call(case, svc, rec):
    """driver record -> the call record of Mixins.tla."""
    row = next(r for r in case['table'] if r['rpc'] == rec['rpc'])
    ev = dict(ev='call', inst=rec['inst'], server='-', svc=svc, m=rec['rpc'], kind=rec['kind'], via='-', path='-', reqtype='-', resptype='-', hkey='-', hval='-',
              verb='-', body='-', extra='-')
    sent = rec.get('sent') or []
    if rec.get('raised') or len(sent) != 1:
        ev['via'] = 'error'
        ev['path'] = ('raised:' + rec['raised'].split(':')[0]) if rec.get('raised') else f'requests-seen:{len(sent)}'
        return ev
    s = sent[0]
    ev['server'] = s['server']
    if rec['kind'] == 'rest':
        if s['path'].startswith(OWN_REST_PREFIX):
            ev['via'] = 'own'
            return ev
        ev.update(via='mixin', path=s['path'], verb=s['verb'], body=s['body_kind'], extra=s['extra_in'])
        return ev
    if s['path'].startswith(OWN_GRPC_PREFIX):
        ev.update(via='own', path=s['path'])
        return ev
    wire = row['resptype']
    expected_ret = 'None' if wire == 'google.protobuf.Empty' else wire
    ret = rec.get('ret_type') or 'nothing'
    k, v = project_header(s['headers'])
    ev.update(via='mixin', path=s['path'],
              reqtype=row['reqtype'] if (s['req_decodes'] and s['req_same'] and s['nreq'] == 1) else 'not-the-standard-request',
              resptype=ret if (rec.get('ret_same') or ret != expected_ret) else 'reply-altered',
              hkey=k, hval=v)
    return ev


# ---- comparison (spec -> code) ---------------------------------------------------------------------------
def vkey(case, svc, kind, rpc, aspect):
    """kind: grpc | grpc_asyncio | rest for calls, sync | asyncio for presence; clients of the second service are marked Other."""
    if case['tmpl'] == 'ads' and aspect == 'routing-header':
        snake = next(r['snake'] for r in case['table'] if r['rpc'] == rpc)
        return f'ads:{snake}:routing-header'
    where = kind if svc == SERVICE else f'{svc}.{kind}'
    return f"{case['tmpl']}:{origin(case, rpc)}:{where}:{rpc}:{aspect}"


def ident(e):
    return (e['svc'], e['m'], e['kind'], e['seq'])


def compare(case, present, events):
    """returns (presence diffs [(key, text)], per-call diffs {(svc, m, kind): [(key, text)]}, unexpected [(key, text)])."""
    pres = []
    for svc in case['services']:
        for client in case['clients']:
            want, got = case['expect']['present'][svc][client], present[svc][client]
            for rpc in want:
                if rpc not in got:
                    pres.append((vkey(case, svc, client, rpc, 'not-exposed'),
                                 f'{svc} {client} client lacks {rpc}; predicted {want}, found {got}'))
            for rpc in got:
                if rpc not in want:
                    pres.append((vkey(case, svc, client, rpc, 'exposed-unexpectedly'),
                                 f'{svc} {client} client exposes {rpc}; predicted {want}, found {got}'))
    predicted = {(c['svc'], c['m'], c['kind'], c['inst']): c for c in case['expect']['calls']}
    skip = {(c['svc'], c['m'], c['kind']) for c in case['expect']['outofscope']}
    calls, extra = {}, []
    seen_ids = set()
    for o in events:          # every observed call (each method is called on instance A, on B and on A again)
        sv, m, kd = o['svc'], o['m'], o['kind']
        p = predicted.get((sv, m, kd, o['inst']))
        seen_ids.add((sv, m, kd, o['inst']))
        if p is None:
            if (sv, m, kd) not in skip:
                extra.append((vkey(case, sv, kd, m, 'unexpected-call'), f'{sv}.{m} over {kd} is callable ({o}) but not predicted'))
            continue
        d = []
        if o['via'] == 'error':
            d.append((vkey(case, sv, kd, m, 'raised'), f"{sv}.{m} over {kd} (instance {o['inst']}, call {o['seq']}): {o['path']}"))
        elif o['via'] != p['via']:      # the API's own RPC was reached instead of the mixin, or the other way round
            d.append((vkey(case, sv, kd, m, 'own-rpc'),
                      f"{sv}.{m} over {kd}: reached {o['via']} ({o['path']}), predicted {p['via']} ({p['path']})"))
        else:
            seen = set()
            for f in CALL_FIELDS[5:]:
                if o[f] != p[f] and ASPECT[f] not in seen:
                    seen.add(ASPECT[f])
                    d.append((vkey(case, sv, kd, m, ASPECT[f]),
                              f"{sv}.{m} over {kd} (instance {o['inst']}, call {o['seq']}): {f} = {o[f]!r}, predicted {p[f]!r}"))
        if d:
            calls[ident(o)] = d
    for smki in predicted:
        if smki not in seen_ids:
            sv, m, kd, i = smki
            calls[(sv, m, kd, 'missing-' + i)] = [(vkey(case, sv, kd, m, 'not-callable'),
                                                  f'no call of {m} on {sv} over {kd} (instance {i}) was possible')]
    return pres, calls, extra


def evaluate(cases_of_cfg, obs, k):
    """pick the case for the client classes the library has; project; compare."""
    per = obs['services']
    first = per[cases_of_cfg[0]['services'][0]]
    clients = ['sync'] + (['asyncio'] if first['present']['asyncio'] is not None else [])
    case = next((c for c in cases_of_cfg if c['clients'] == clients), None)
    if case is None:
        raise core.MachineryError(f'no case for clients {clients} in {k}')
    present = {sv: {c: project_present(case, per[sv]['present'].get(c)) for c in clients} for sv in case['services']}
    skip = {(c['svc'], c['m'], c['kind']) for c in case['expect']['outofscope']}
    events = [project_call(case, sv, rec) for sv in case['services'] for rec in per[sv]['calls']]
    count = {}
    for e in events:          # seq: the n-th call of this method on this client kind (1 = A, 2 = B, 3 = A again)
        key = (e['svc'], e['m'], e['kind'])
        count[key] = e['seq'] = count.get(key, 0) + 1
    events = [e for e in events if (e['svc'], e['m'], e['kind']) not in skip]
    order = {(sv, r['rpc'], kd): (h, i, j) for h, sv in enumerate((SERVICE, 'Other')) for i, r in enumerate(case['table'])
             for j, kd in enumerate(('grpc', 'grpc_asyncio', 'rest'))}
    events.sort(key=lambda e: order[(e['svc'], e['m'], e['kind'])] + (e['seq'],))
    return case, present, events, compare(case, present, events)


def keys_of(diffs):
    pres, calls, extra = diffs
    return {vk for vk, _ in pres + extra} | {vk for ds in calls.values() for vk, _ in ds}


def trace_cfg(case):
    return dict(apis=case['apis'], rulecode=case['rulecode'], addl=case['addl'], dup=case['dup'], own=case['own'], layout=case['layout'], legacy=case['legacy'], tmpl=case['tmpl'],
                transports=case['transports'], clients=case['clients'])


def pick_quick(keys, by_key, rnd, n=36):
    """fixed corners + a seeded sample."""
    def find(pred, tmpl='default'):
        return next(k for k in keys if by_key[k][0]['tmpl'] == tmpl and pred(by_key[k][0]))
    allv = lambda c, v: all(x == v for x in c['rulecode'].values())
    full = lambda c, v: allv(c, v) and c['addl'] == 'none' and not c['dup']
    corners = [
        find(lambda c: len(c['apis']) == 3 and full(c, 1) and not c['own'] and not c['legacy'] and c['transports'] == ['grpc', 'rest']),
        find(lambda c: len(c['apis']) == 3 and full(c, 2) and not c['own'] and not c['legacy'] and c['transports'] == ['grpc', 'rest']),
        find(lambda c: len(c['apis']) == 3 and full(c, 1) and len(c['own']) == 3 and c['layout'] == 'single' and c['transports'] == ['grpc', 'rest']),
        find(lambda c: len(c['apis']) == 3 and full(c, 1) and len(c['own']) == 3 and c['layout'] == 'own_first' and c['transports'] == ['grpc', 'rest']),
        find(lambda c: len(c['apis']) == 3 and full(c, 1) and len(c['own']) == 3 and c['layout'] == 'own_last' and c['transports'] == ['grpc', 'rest']),
        # an own RPC whose name is NOT a configured mixin RPC (rules for Set/Get only, own TestIamPermissions) ...
        find(lambda c: len(c['apis']) == 3 and c['own'] == ['TestIamPermissions'] and c['rulecode']['SetIamPolicy'] and
             c['rulecode']['GetIamPolicy'] and not c['rulecode']['TestIamPermissions']),
        # ... and own RPCs that cover every configured IAM RPC (rules for Set/Get only, own Set + Get)
        find(lambda c: len(c['apis']) == 3 and sorted(c['own']) == ['GetIamPolicy', 'SetIamPolicy'] and c['rulecode']['SetIamPolicy'] and
             c['rulecode']['GetIamPolicy'] and not c['rulecode']['TestIamPermissions']),
        # additional bindings that sort before / after the primary one
        find(lambda c: len(c['apis']) == 3 and allv(c, 1) and c['addl'] == 'before' and not c['dup'] and not c['own'] and not c['legacy']
             and c['transports'] == ['grpc', 'rest']),
        find(lambda c: len(c['apis']) == 3 and allv(c, 2) and c['addl'] == 'after' and not c['dup'] and not c['own'] and not c['legacy']
             and c['transports'] == ['grpc', 'rest']),
        # every selector twice in the YAML (older rule first): the last rule counts
        find(lambda c: len(c['apis']) == 3 and allv(c, 1) and c['dup'] and not c['own'] and not c['legacy']
             and c['transports'] == ['grpc', 'rest']),
        find(lambda c: len(c['apis']) == 3 and full(c, 1) and c['legacy'] and c['transports'] == ['grpc', 'rest']),
        find(lambda c: len(c['apis']) == 0 and full(c, 0) and c['legacy'] and c['transports'] == ['grpc']),
        find(lambda c: len(c['apis']) == 0 and full(c, 1) and not c['own'] and not c['legacy'] and c['transports'] == ['grpc', 'rest']),
        find(lambda c: len(c['apis']) == 3 and full(c, 0) and not c['own'] and not c['legacy'] and c['transports'] == ['grpc', 'rest']),
        find(lambda c: len(c['apis']) == 3 and full(c, 1) and not c['own'] and not c['legacy'] and c['transports'] == ['rest']),
        find(lambda c: len(c['apis']) == 3 and full(c, 1) and not c['own'] and not c['legacy'] and c['transports'] == ['grpc', 'rest'],
             tmpl='ads'),
    ]
    rest = [k for k in keys if k not in corners]
    assert len(set(corners)) == len(corners), corners
    return corners + rnd.sample(rest, max(0, n - len(corners)))


def main(chk, args):
    quick = chk.tier == 'quick'
    rnd = random.Random(chk.seed)
    # 1. the specification satisfies the property within the bounds; the mutants do not.  2. cases.  (run side by side)
    base_cfg = open(os.path.join(tlc.SPEC, 'Mixins.small.cfg')).read()
    muts = [MUTANTS[(chk.seed + i * 4) % len(MUTANTS)] for i in range(3)] if quick else MUTANTS

    def run_mutant(m):
        return tlc.run('Mixins', base_cfg.replace('Mutant = "none"', f'Mutant = "{m}"'), deadlock=False, workers=2, timeout=600)
    with ThreadPoolExecutor(6) as ex:
        f_model = ex.submit(tlc.run, 'Mixins', 'Mixins.small.cfg' if quick else 'Mixins.full.cfg', deadlock=False,
                            workers=4 if quick else 8, timeout=1500)
        f_emit = ex.submit(tlc.emit_cases, 'Mixins', 'Mixins.emit.quick.cfg' if quick else 'Mixins.emit.thorough.cfg',
                           deadlock=False, timeout=1500)
        f_muts = [(m, ex.submit(run_mutant, m)) for m in muts]
        chk.add_tlc(f_model.result(), 'Mixins model check')
        for m, f in f_muts:
            rm = f.result()
            chk.tlc_runs.append(dict(label=f'spec mutant {m} (must be rejected)', **rm.summary()))
            if rm.ok or not (rm.violated or '').startswith('Inv_'):
                raise core.MachineryError(f'spec mutant {m} was not rejected by an invariant: violated={rm.violated}')
        cases, r2 = f_emit.result()
    chk.add_tlc(r2, 'Mixins case emission')
    if not cases:
        raise core.MachineryError('no cases emitted')
    # "IAM mixins yield to same-named RPCs defined by the API itself" admits two readings when the API declares SOME of the
    # configured IAM RPCs: the whole IAM mixin yields (what the code does, GroupYield in Mixins.tla) or only the same-named
    # RPCs do.  Configurations on which the two readings differ are not replayed - an implementation following the other
    # reading satisfies the property and must not raise an alarm.  (Same-named RPCs yield and own RPCs win in every replayed
    # configuration; own RPCs with other IAM names withdraw nothing.)
    IAM3 = ('SetIamPolicy', 'GetIamPolicy', 'TestIamPermissions')

    def readings_differ(c):
        configured = {m for m in IAM3 if 'IAM' in ''.join(c['apis']).upper() and c['rulecode'].get(m)}
        own = set(c['own'])
        return bool(own & configured) and not configured <= own
    nbefore = len(cases)
    cases = [c for c in cases if not readings_differ(c)]
    chk.extra['configurations_skipped_two_readings'] = nbefore - len(cases)
    by_key = {}
    for c in cases:
        by_key.setdefault(cfg_key(c), []).append(c)
    keys = sorted(by_key)
    chk.exhaustive = not quick
    if quick:
        keys = pick_quick(keys, by_key, rnd)
    # 3. generate + drive, one library per configuration
    jobs = [(k, by_key[k][0]) for k in keys]
    results = {}
    with ProcessPoolExecutor(int(os.environ.get('VERIF_C17_PROCS', '8'))) as ex:
        for out in ex.map(_work, jobs, chunksize=1):
            results[out['key']] = out
    # 4. compare + build traces
    found = {}          # violation key -> [ (cfg key, text, replay) ]
    good, suspects = [], {}
    ncalls = 0

    def note(vk, k, text, replay):
        found.setdefault(vk, []).append((k, text, replay))

    for k in keys:
        out = results[k]
        any_case = by_key[k][0]
        if 'drv_error' in out:
            raise core.MachineryError(f'mixins driver failed for {k}:\n' + out['drv_error'])
        if 'gen_error' in out:
            chk.case(k)
            note(f"{any_case['tmpl']}:generation", k, out['gen_error'], dict(case=any_case, yaml=yaml_of(any_case)))
            continue
        case, present, events, (pres, calls, extra) = evaluate(by_key[k], out['obs'], k)
        ncalls += len(events)
        chk.case(k, nontrivial=bool(case['expect']['calls']) or case['legacy'] or case['own'])
        replay = dict(cfg=k, yaml=yaml_of(case), options=options_of(case), own_iam_rpcs=case['own'], services=case['services'], predicted=case['expect'],
                      observed=dict(present=present, calls=events))
        for vk, text in pres + extra:
            note(vk, k, text, replay)
        for _, ds in calls.items():
            for vk, text in ds:
                note(vk, k, text, replay)
        select = dict(ev='select', present={sv: dict(sync=present.get(sv, {}).get('sync', []), asyncio=present.get(sv, {}).get('asyncio', []))
                                            for sv in (SERVICE, 'Other')})
        cfg = trace_cfg(case)
        if pres:
            suspects.setdefault(pres[0][0], (k, dict(cfg=cfg, events=[select] + events)))
            continue
        predicted_ids = {(c['svc'], c['m'], c['kind'], c['inst']) for c in case['expect']['calls']}
        bad = set(calls) | {ident(e) for e in events if (e['svc'], e['m'], e['kind'], e['inst']) not in predicted_ids}
        good.append((k, dict(cfg=cfg, events=[select] + [e for e in events if ident(e) not in bad])))
        for e in events:
            if ident(e) in bad:
                vk = calls[ident(e)][0][0] if ident(e) in calls else vkey(case, e['svc'], e['kind'], e['m'], 'unexpected-call')
                suspects.setdefault(vk, (k, dict(cfg=cfg, events=[select, e])))
        if len(chk.samples) < 3 and case['expect']['calls']:
            chk.sample(dict(cfg=k, present=present, calls=events[:4]))
    chk.evaluations += ncalls
    # 5. spec -> code verdicts: one violation per key, with the smallest failing configuration as replay
    rerun = {}
    for vk in sorted(found):
        hits = found[vk]
        k, text, replay = min(hits, key=lambda h: ('/plain/' not in h[0], len(json.dumps(h[2].get('yaml', {}))), h[0]))
        if k not in rerun:          # a mismatch is re-run once in isolation before it is reported (DESIGN 7.1)
            again = _work((k, by_key[k][0]))
            rerun[k] = ({f"{by_key[k][0]['tmpl']}:generation"} if 'gen_error' in again else
                        keys_of(evaluate(by_key[k], again['obs'], k)[3]) if 'obs' in again else None)
        if rerun[k] is None or vk not in rerun[k]:
            raise core.MachineryError(f'mismatch {vk} for {k} did not reproduce in isolation: {text}')
        chk.violation(vk, f'{text}  [{len(hits)} of {len(keys)} configurations, e.g. {k}]', replay)
    # 6. code -> spec
    accepted, rejected, runs = tlc.validate_all('MixinsTrace', 'MixinsTrace.cfg', [t for _, t in good], timeout=1500)
    for r3 in runs:
        chk.states += r3.distinct; chk.transitions += r3.generated
    chk.tlc_runs.append(dict(label='MixinsTrace batch', runs=len(runs), accepted=accepted, rejected=len(rejected)))
    chk.traces += accepted
    for idx, t, info in rejected:
        chk.violation(f'trace:{good[idx][0]}', f'MixinsTrace rejected the recorded behaviour: {info}', dict(trace=t, info=info))
    if suspects:
        items = sorted(suspects.items())[:40]

        def one(it):
            vk, (k, t) = it
            n, rr = tlc.validate_traces('MixinsTrace', 'MixinsTrace.cfg', [t], timeout=600)
            return vk, k, t, n, rr
        with ThreadPoolExecutor(6) as ex:
            outs = list(ex.map(one, items))
        nrej = 0
        for vk, k, t, n, rr in outs:
            chk.states += rr.distinct; chk.transitions += rr.generated
            if n is None:
                raise core.MachineryError('trace validation machinery failure:\n' + rr.out[-3000:])
            if n >= 1:
                chk.traces += 1
            else:
                nrej += 1
                chk.violation('trace:' + vk, f'MixinsTrace rejected the recorded behaviour of {k}: violated={rr.violated} '
                              f'reached={rr.tagged.get("REACHED", [None])[-1]} events={t["events"][-1]}', dict(trace=t, cfg=k))
        chk.tlc_runs.append(dict(label='MixinsTrace, steps that disagree with the prediction (one representative per key)',
                                 runs=len(outs), rejected=nrej))
    chk.rule = ('one case = one configuration (template set / YAML apis subset / http rule per mixin RPC: absent, rule 1, rule 2 / '
                'plain, own IAM RPCs (one service, or two services with the declaring one first / last), add-iam-methods / transports) generated with the real generator and driven over sync gRPC, '
                'asyncio gRPC and REST; evaluations = configurations + calls observed at the loopback servers; non-trivial = at '
                'least one predicted call or own/legacy set; distinct by configuration')
    chk.assumptions += [
        'two client instances (A, B) per client kind / transport live in one process, each on its own loopback grpc / http server; every '
        'method is called on A, on B and on A again; requests decoded with the installed google.longrunning / google.iam.v1 / google.cloud.location '
        'pb2 descriptors (the input descriptors of the mixin APIs)',
        'own IAM RPCs = service Carrier declares any subset of SetIamPolicy/GetIamPolicy/TestIamPermissions (proper subsets: one service, both '
        'transports); the IAM mixin is read to yield as a whole iff an own RPC carries the name of a configured IAM mixin RPC (DESIGN 4 C17; '
        'Inv_GroupYield); an own RPC with another IAM name withdraws nothing (Inv_YieldOnlyToSameNamed); in the two-service layouts '
        'a second service Other (ordinary RPCs) is declared after / before it and every client of both services is driven; own together with '
        'add-iam-methods is not generated (the two clauses of the property contradict each other there)',
        'with add-iam-methods the IAM methods have no http rule: REST calls of them are outside the property',
        'http rules have body "*" or no body and at most one additional binding of the same pattern (uri sorting before / after the primary); the REST '
        'call must use the first matching binding in declaration order; with `dup` every selector occurs twice in http.rules and the last rule counts; rule sets form an orthogonal array of strength 2 over '
        '{absent, rule 1, rule 2}^10 plus all-on (thorough); quick = 16 fixed corners (one Ads, two with two services, two with a proper subset of own IAM RPCs, two with additional bindings, one with every selector twice) + seeded sample',
        'the Ads template set and REST-only libraries have no asyncio client: the property is read over the clients that exist',
    ]
    chk.extra['configurations'] = len(keys)
    chk.extra['calls_observed'] = ncalls
    chk.extra['violation_keys'] = {vk: len(h) for vk, h in found.items()}


main.level = 'model_checking'
