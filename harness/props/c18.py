"""C18 - auto-populated request ids obey AIP-4235 at generation time and at call time.

spec      : spec/Call.tla (AutoPopulate/NeedsId/Populate; Inv_AutoPopulate, Inv_NoUuidElsewhere) for the call-time clause;
            spec/Settings.tla for the generation-time validation matrix.
spec->code: CreateThing (auto fields request_id [no presence] and opt_request_id [proto3 optional]) called on sync, asyncio and
            REST clients with each field unset / empty / set; the payload seen by the server is projected (9 = fresh version-4
            UUID, 7 = a UUID seen before) and compared; generation outcomes of every settings list compared with the prediction.
code->spec: CallTrace.tla.
"""
from .. import callrun
from . import c18_settings


def internal_mode(chk):
    """AIP-4235 holds for a method whatever its visibility: with selective generation in INTERNAL mode the unlisted CreateThing
    becomes _create_thing, its settings stay valid and it still gets fresh UUID4 ids iff the caller left the fields unset."""
    import copy, os
    from .. import gen, core, pipeline
    api = copy.deepcopy(callrun.carrier_api())
    api['yaml']['publishing']['library_settings'] = [{'version': callrun.PKG, 'python_settings': {'common': {'selective_gapic_generation': {
        'methods': [f'{callrun.PKG}.Things.GetThing'], 'generate_omitted_as_internal': True}}}}]
    with gen.scratch() as work:
        try:
            req, res = gen.generate_api(api, dict(transport=['grpc', 'rest'], snippets=False), work)
        except Exception as e:
            chk.case('internal-mode:generation')
            chk.violation('internal-mode:generation', f'valid method settings rejected in internal mode: {type(e).__name__}: {e}'[:300]); return
        root = gen.materialise(res, os.path.join(work, 'out'))
        for fdp in req.proto_file:
            if fdp.name.startswith('other/'):
                pipeline.write_pb2(fdp, root)
        ok, out, err = gen.run_driver('harness.drivers.internal_autopop', root, dict(api=api, module=callrun.MODULE), timeout=600)
    if not ok:
        raise core.MachineryError('internal_autopop driver failed:\n' + err)
    ids = set()
    for o in out['obs']:
        k = f"internal-mode:{o['path']}:{o['case']}"
        chk.case(k, nontrivial=True)
        if o.get('error'):
            chk.violation(k + ':raised', f"{o['method']} raised {o['error']} (classes {o['classes']})", o); continue
        rid, oid = o.get('request_id'), o.get('opt_request_id')
        if o['case'] == 'set':
            if (rid, oid) != ('mine', 'mine-too'):
                chk.violation(k + ':altered', f'caller-provided ids were altered: {rid!r}, {oid!r}', o)
        else:
            for name, v in (('request_id', rid), ('opt_request_id', oid)):
                if not (isinstance(v, str) and callrun.UUID4.match(v)) or v in ids:
                    chk.violation(k + ':not-populated', f'{o["method"]}: {name} = {v!r} is not a fresh version-4 UUID', o)
                ids.add(v)


def main(chk, args):
    quick = chk.tier == 'quick'
    sel = lambda c: c['method'] == 'CreateThing' or (c['method'] == 'GetThing' and c['form'] == 'msg')
    cases = callrun.get_cases(chk, quick, chk.seed, select=sel, n_quick=3000)
    callrun.check(chk, cases, 'C18')
    c18_settings.run(chk)
    internal_mode(chk)
    chk.rule = ('call-time: final states of Call.tla for CreateThing (both id fields unset/empty/set, via request, dict, kwargs) on three call '
                'paths + a method without settings (no UUID anywhere); generation-time: every settings list of Settings.tla; '
                'non-trivial = all; distinct by case key')
    chk.assumptions += ['freshness = the UUID differs from every UUID seen earlier in the same driver process',
                        'UUID format checked by regex for version nibble 4 and variant bits 8/9/a/b']


main.level = 'model_checking'
