"""C18 - auto-populated request ids obey AIP-4235 at generation time and at call time.

spec      : spec/Call.tla (AutoPopulate/NeedsId/Populate; Inv_AutoPopulate, Inv_NoUuidElsewhere) for the call-time clause;
            spec/Settings.tla for the generation-time validation matrix.
spec->code: CreateThing (auto fields request_id [no presence] and opt_request_id [proto3 optional]) called on sync, asyncio and
            REST clients with each field unset / empty / set; the payload seen by the server is projected (9 = fresh version-4
            UUID, 7 = a UUID seen before) and compared; generation outcomes of every settings list compared with the prediction.
code->spec: CallTrace.tla.
"""
from .. import callrun
from . import c18_settings


def main(chk, args):
    quick = chk.tier == 'quick'
    sel = lambda c: c['method'] == 'CreateThing' or (c['method'] == 'GetThing' and c['form'] == 'msg')
    cases = callrun.get_cases(chk, quick, chk.seed, select=sel, n_quick=3000)
    callrun.check(chk, cases, 'C18')
    c18_settings.run(chk)
    chk.rule = ('call-time: final states of Call.tla for CreateThing (both id fields unset/empty/set, via request, dict, kwargs) on three call '
                'paths + a method without settings (no UUID anywhere); generation-time: every settings list of Settings.tla; '
                'non-trivial = all; distinct by case key')
    chk.assumptions += ['freshness = the UUID differs from every UUID seen earlier in the same driver process',
                        'UUID format checked by regex for version nibble 4 and variant bits 8/9/a/b']


main.level = 'model_checking'
