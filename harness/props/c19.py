"""C19 - resource path helpers build and parse names as mutual inverses.

spec      : spec/ResourcePath.tla.  Patterns are token sequences (lit / var / trailing multi), values and names
            are sequences of characters.  Build = concatenation; Parse is the declarative inverse on the domain the
            property states.  TLC checks round trip, inverse, non-match => {}, wildcard, ** and uniqueness of the
            parse (ResourcePath.small/full/deep.cfg), the VisibleResources table against its graph semantics
            (ResourcePath.vis.cfg) and rejects the self-test mutants.
spec->code: TLC emits cases (pattern, segment values, built name, string handed to parse, predicted dict, predicted
            rebuild; ResourcePath.emit.*.cfg, exhaustive for small scopes, wide sweep of all patterns up to six
            variables, seeded simulation beyond).  ~30 patterns are packed per generated API as message resources,
            file-level resource definitions and referenced resources; the REAL generator emits the library and
            harness/drivers/respath.py calls <name>_path / parse_<name>_path on the sync and asyncio client classes.
            VisibleResources shapes (ResourcePath.emit.vis.cfg) are generated one API each and the helper inventory
            of both services is compared with the predicted set (inclusion only: the property requires helpers, it
            does not forbid extra ones).
code->spec: the observed (pattern, values, built, parsed, rebuilt) steps are validated by spec/ResourcePathTrace.tla.

Violation keys (stable, one class each):
  sep-dot:<pattern>     the pattern has a literal "." and the observed dict is exactly what an unescaped "." in the
                        parsing regex yields (prediction `dotany` of the specification's mutant) - design finding F11
  roundtrip:<pattern>   parse(build(a)) != a        nonmatch:<pattern>  non-matching string parsed to a non-empty dict
  parse:<pattern>       other wrong dict            build:<pattern>     wrong built name
  rebuild:<pattern>     build(parse(s)) != s        helper:<pattern> / async:<pattern>  helper missing / differs
  visible:<svc>:<placement>   a required helper is not offered   trace:<key>  ResourcePathTrace rejected the steps
  ads:<class>:<pattern>       the same classes observed on the client emitted by the Ads template set
                              (python-gapic-templates=ads-templates, old-naming; sync client only)
"""
import json
import os
import random
import re
import time
from concurrent.futures import ProcessPoolExecutor, ThreadPoolExecutor

from .. import core, gen, tlc

PKG = 'acme.rp.v1'
MODULE = 'acme.rp_v1'
VPKG = 'acme.vis.v1'
VMODULE = 'acme.vis_v1'
PER_API = 30
OPTS = dict(transport=['grpc'], snippets=False)
# the alternative template set (no asyncio client there; old naming: module acme.rp.v1)
ADS_OPTS = dict(transport=['grpc'], snippets=False, templates='ads-templates', old_naming=True)
ADS_MODULE = 'acme.rp.v1'
SEPCHARS = '/-_~.'
# concrete characters the abstract letters a / b may stand for (never a delimiter; no line break: see assumptions)
POOL = list('abxyzAQ %:@+=!$^()[]{}|\\?*#&\',;<>"') + ['é', '日']
assert not set(POOL) & set('cs0123456789' + SEPCHARS)      # never a character of a literal of a generated pattern
COMMON = ['billing_account', 'folder', 'organization', 'project', 'location']
_ARG = re.compile(r'\{([^{}=]+)(=\*\*)?\}')


# ---------------------------------------------------------------------------------------------------------
# projections (pure splitting, no expectation)
def tokens(pattern):
    """pattern text -> [{k, s, n}] with s a list of characters."""
    out, pos = [], 0
    for m in _ARG.finditer(pattern):
        if m.start() > pos:
            out.append(dict(k='lit', s=list(pattern[pos:m.start()]), n=''))
        out.append(dict(k='multi' if m.group(2) else 'var', s=[], n=m.group(1)))
        pos = m.end()
    if pos < len(pattern):
        out.append(dict(k='lit', s=list(pattern[pos:]), n=''))
    return out


def pattern_events(pattern):
    """the steps of the specification that spell this pattern (TClose checks the result token by token)."""
    if pattern == '*':
        return [dict(ev='wild')]
    toks = tokens(pattern)
    ev, i = [], 0
    lead = toks[0]['k'] == 'lit'
    coll = toks[0]['s'][:-1] if lead else []
    i = 1 if lead else 0
    ev.append(dict(ev='begin', lead=lead, coll=coll, name=toks[i]['n']))
    i += 1
    while i + 1 < len(toks):
        lit = toks[i]['s']
        if len(lit) == 1:
            ev.append(dict(ev='extend', sep=lit[0], coll=[], name=toks[i + 1]['n']))
        else:
            ev.append(dict(ev='extend', sep=lit[0], coll=lit[1:-1], name=toks[i + 1]['n']))
        i += 2
    if i < len(toks):
        ev.append(dict(ev='close', tail='single', coll=toks[i]['s'][1:], tokens=toks))
    else:
        ev.append(dict(ev='close', tail='multi' if toks[-1]['k'] == 'multi' else 'plain', coll=[], tokens=toks))
    return ev


def pattern_class(pattern):
    """(number of variables, tail, leading collection id?, separators used) - selects inputs, decides nothing."""
    if pattern == '*':
        return (0, 'wild', False, frozenset())
    toks = tokens(pattern)
    nv = sum(1 for t in toks if t['k'] != 'lit')
    tail = 'multi' if toks[-1]['k'] == 'multi' else 'single' if toks[-1]['k'] == 'lit' else 'plain'
    inner = [t for j, t in enumerate(toks) if t['k'] == 'lit' and 0 < j < len(toks) - 1]
    return (nv, tail, toks[0]['k'] == 'lit', frozenset(t['s'][0] for t in inner))


def call_events(case, o):
    """one helper round as observed: values handed in, built name, string parsed, dict, rebuild."""
    ev = [dict(ev='value', v=list(v)) for v in case['_args']]
    ev.append(dict(ev='build', built=list(o['built'])))
    if case['kind'] == 'foreign':
        ev.append(dict(ev='foreign', str=list(o['parse_in'])))
    ev.append(dict(ev='parse', names=[k for k, _ in o['parsed']], vals=[list(v) for _, v in o['parsed']]))
    ev.append(dict(ev='compare', rebuilt=list(o['rebuilt'] or '')))
    return ev


# ---------------------------------------------------------------------------------------------------------
# abstract APIs
def path_api(patterns):
    """~30 patterns in one API; the resource is made visible in three different ways (i mod 3)."""
    msgs, defs, reqf, midf = [], [], [dict(name='name')], [dict(name='x')]
    for i, p in patterns:
        if isinstance(i, str):
            # a message resource whose short type name equals one of the common resources (ex.com/Folder): its helpers
            # <name>_path / parse_<name>_path live next to common_<name>_path / parse_common_<name>_path
            msgs.append(dict(name=i, resource=dict(type=f'ex.com/{i}', patterns=[p]), fields=[dict(name='name')]))
            reqf.append(dict(name=f'own_{i.lower()}', type=i))
            continue
        typ = f'ex.com/R{i}'
        how = i % 3
        if how == 1:
            defs.append(dict(type=typ, patterns=[p]))
            reqf.append(dict(name=f'n{i}', **({'ref': typ} if (i // 3) % 2 == 0 else {'child_ref': typ})))
        else:
            # every fifth message resource declares the wildcard as a SECOND pattern: helpers are built from the first pattern
            msgs.append(dict(name=f'R{i}', resource=dict(type=typ, patterns=[p, '*'] if i % 5 == 4 and p != '*' else [p]), fields=[dict(name='name')]))
            (reqf if how == 0 else midf).append(dict(name=f'r{i}', type=f'R{i}'))
    msgs += [dict(name='Mid', fields=midf), dict(name='Req', fields=reqf),
             dict(name='Resp', fields=[dict(name='mid', type='Mid')])]
    return dict(files=[dict(name='acme/rp/v1/rp.proto', package=PKG, messages=msgs, resource_definitions=defs,
                            services=[dict(name='Rp', methods=[dict(name='Do', **{'in': 'Req', 'out': 'Resp'})])])])


def vis_api(place):
    """one API per VisibleResources shape (spec: ResourcePath.tla, Placements)."""
    msgs, defs, depdefs, s1, s2 = [], [], [], [], []
    for r, w in sorted(place.items()):
        R = r.upper()
        typ = f'ex.com/Res{R}'
        res = dict(type=typ, patterns=[f'res{r}s/{{res_{r}}}'])
        f = {k: [dict(name='x')] for k in ('Req', 'Resp', 'Mid', 'LReq', 'LroResp', 'LroMeta', 'OReq', 'OResp')}
        f['Resp'].append(dict(name='mid', type=f'Mid{R}'))
        where = dict(req_field='Req', resp_nested='Mid', lro_resp='LroResp', lro_meta_only='LroMeta', other_service='OReq')
        if w in where:
            f[where[w]].append(dict(name='res', type=f'Res{R}'))
        if w in ('ref_in_req', 'file_ref', 'dep_file_ref'):
            f['Req'].append(dict(name='target', ref=typ))
        if w == 'child_ref_resp':
            f['Resp'].append(dict(name='parent', child_ref=typ))
        if w == 'ref_nested':
            f['Mid'].append(dict(name='target', ref=typ))
        if w == 'ref_in_lro_resp':
            f['LroResp'].append(dict(name='target', ref=typ))
        for k, fl in f.items():
            m = dict(name=k + R, fields=fl)
            if w == 'req_self' and k == 'Req':
                m['resource'] = res
            msgs.append(m)
        if w == 'file_ref' or w == 'file_unref':
            defs.append(res)
        elif w == 'dep_file_ref':
            depdefs.append(res)
        elif w != 'req_self':
            msgs.append(dict(name=f'Res{R}', resource=res, fields=[dict(name='name')]))
        s1.append(dict(name=f'M{R}', **{'in': f'Req{R}', 'out': f'Resp{R}'}))
        s1.append(dict(name=f'L{R}', **{'in': f'LReq{R}', 'out': 'google.longrunning.Operation'},
                       lro=dict(resp=f'{VPKG}.LroResp{R}', meta=f'{VPKG}.LroMeta{R}')))
        s2.append(dict(name=f'O{R}', **{'in': f'OReq{R}', 'out': f'OResp{R}'}))
    return dict(files=[dict(name='acme/dep/v1/dep.proto', package='acme.dep.v1', target=False,
                            messages=[dict(name='Unused', fields=[dict(name='x')])], resource_definitions=depdefs),
                       dict(name='acme/vis/v1/vis.proto', package=VPKG, messages=msgs, resource_definitions=defs,
                            services=[dict(name='S1', methods=s1), dict(name='S2', methods=s2)])])


def _run_api(job):
    """worker: real generator -> emitted tree -> driver in a fresh interpreter.  Returns (ok, result, err)."""
    try:
        with gen.scratch() as work:
            req, res = gen.generate_api(job['api'], dict(job.get('opts') or OPTS), work)
            root = gen.materialise(res, os.path.join(work, 'out'))
            return gen.run_driver('harness.drivers.respath', root, job['payload'], timeout=900)
    except Exception as e:  # generation failed: machinery, reported by the caller
        import traceback
        return False, None, f'{type(e).__name__}: {e}\n{traceback.format_exc()[-1500:]}'


# ---------------------------------------------------------------------------------------------------------
# case emission
def _cfg_text(name, **subst):
    with open(os.path.join(tlc.SPEC, name)) as f:
        t = f.read()
    for k, v in subst.items():
        t, n = re.subn(rf'\b{k} = (\{{[^}}]*\}}|"[^"]*"|\S+)', f'{k} = {v}', t, count=1)
        if n != 1:
            raise core.MachineryError(f'constant {k} not found in {name}')
    return t


def _sim(argsd):
    cases, r = tlc.emit_cases('ResourcePath', argsd['cfg'], deadlock=False, simulate=argsd['n'], depth=40,
                              seed=argsd['seed'], timeout=1200, java_opts=['-Xmx1g'])
    return cases, r


def submit_emission(ex, exsim, seed, quick):
    """start every case-emission run; returns handles for collect_emission."""
    names = ['small'] + ([] if quick else ['mid', 'wide'])
    nsim = 60 if quick else 800
    sims = []
    for m in range(1, 7):
        for pi, per in enumerate(['{"del", "app", "pre", "sub", "ins"}', '{}']):
            sims.append(dict(cfg=_cfg_text('ResourcePath.emit.sim.cfg', MinVars=m, Perturbs=per),
                             n=nsim if pi == 0 else nsim // 2, seed=seed * 100 + m * 2 + pi, m=m))
    fx = [(n, ex.submit(tlc.emit_cases, 'ResourcePath', f'ResourcePath.emit.{n}.cfg', deadlock=False, timeout=2400,
                        java_opts=['-Xmx3g'])) for n in names]
    fs = [exsim.submit(_sim, s) for s in sims]
    fv = ex.submit(tlc.emit_cases, 'ResourcePath', 'ResourcePath.emit.vis.cfg', deadlock=False, timeout=600, java_opts=['-Xmx1g'])
    return fx, sims, fs, fv


def collect_emission(chk, handles):
    """returns (path cases deduplicated in deterministic order, VisibleResources cases)."""
    fx, sims, fs, fv = handles
    out, seen = [], set()

    def add(cases, src):
        for c in cases:
            k = (c['pattern'], tuple(c['args']), c['str'])
            if k not in seen:
                seen.add(k); c['src'] = src; out.append(c)

    for n, f in fx:
        cases, r = f.result()
        chk.add_tlc(r, f'ResourcePath case emission ({n}, exhaustive)')
        if not cases:
            raise core.MachineryError(f'no cases emitted by ResourcePath.emit.{n}.cfg\n' + r.out[-2000:])
        add(cases, n)
    nsimcases = 0
    for sm, f in zip(sims, fs):
        cases, r = f.result()
        if r.rc != 0 or not cases:
            raise core.MachineryError('simulation emitted no cases\n' + r.out[-2000:])
        nsimcases += len(cases)
        add(cases, f'sim{sm["m"]}')
    chk.tlc_runs.append(dict(label='ResourcePath case emission (simulation, MinVars 1..6 x perturbed/unperturbed)',
                             runs=len(sims), walks=sum(sm['n'] for sm in sims), cases=nsimcases))
    vcases, rv = fv.result()
    chk.add_tlc(rv, 'VisibleResources case emission')
    if not vcases:
        raise core.MachineryError('no VisibleResources cases emitted')
    return out, vcases


# ---------------------------------------------------------------------------------------------------------
def classify(c, o, T):
    """spec -> code comparison of one case.  Returns list of (key class, text)."""
    P = c['pattern']
    if not all(o['has_sync']):
        return [('helper', f'client lacks {o["helper"]}_path / parse_{o["helper"]}_path (has {o["has_sync"]})')]
    d = []
    if not c.get('_ads') and not all(o['has_async']):
        d.append(('async', f'asyncio client lacks {o["helper"]}_path / parse_{o["helper"]}_path (has {o["has_async"]})'))
    exp_built = T(c['built'])
    if o['built_err'] or o['built'] != exp_built:
        d.append(('build', f'{o["helper"]}_path({c["_kwargs"]}) = {o["built"]!r} {o["built_err"] or ""}; predicted {exp_built!r}'))
        return d
    if o['parse_err'] or o['parsed'] is None:
        d.append(('parse', f'parse_{o["helper"]}_path({o["parse_in"]!r}) raised {o["parse_err"]}'))
        return d
    got = dict((k, v) for k, v in o['parsed'])
    if not c.get('_ads') and all(o['has_async']) and (o['a_err'] or o['a_built'] != o['built'] or o['a_parsed'] != o['parsed']):
        d.append(('async', f'asyncio client helpers disagree with the sync ones: {o["a_built"]!r} {o["a_parsed"]} {o["a_err"]}'))
    if not c['inq']:
        return d          # outside the property's quantifier: the dict is not compared
    exp = dict(zip(c['names'], [T(v) for v in c['parsed']])) if c['parsed'] else {}
    if got != exp:
        dot = dict(zip(c['names'], [T(v) for v in c['dotany']])) if c['dotany'] else {}
        if c['hasdot'] and got == dot:
            cls = 'sep-dot'
        elif c['kind'] == 'built':
            cls = 'roundtrip'
        elif not exp:
            cls = 'nonmatch'
        else:
            cls = 'parse'
        d.append((cls, f'pattern {P!r}: build({c["_kwargs"]}) = {o["built"]!r}; parse({o["parse_in"]!r}) = {got}; predicted {exp}'))
        return d
    if exp:
        if o['rebuilt_err'] or o['rebuilt'] != T(c['rebuilt']):
            d.append(('rebuild', f'pattern {P!r}: build(**parse({o["parse_in"]!r})) = {o["rebuilt"]!r} {o["rebuilt_err"] or ""}; '
                                 f'predicted {T(c["rebuilt"])!r}'))
    return d


def _upto_failing_round(events, info):
    """the recorded steps up to the end of the helper round TLC could not follow (keeps replay files small)."""
    k = int(info.get('matched_prefix') or 0)
    end = next((j for j in range(k, len(events)) if events[j]['ev'] == 'again'), len(events))
    return events[:end]


def _tr(cmap):
    return lambda s: ''.join(cmap.get(ch, ch) for ch in s)


def check_visible(chk, c, inv):
    for svc, field in (('S1', 's1'), ('S2', 's2')):
        need = {f'res_{r}': c['place'][r] for r in c[field]}
        need.update({f'common_{n}': 'common' for n in COMMON})
        shape = ','.join(f'{r}={w}' for r, w in sorted(c['place'].items()))
        chk.case(('visible', svc, shape), nontrivial=bool(c[field]))
        for h, w in sorted(need.items()):
            for flavour in ('sync', 'async'):
                miss = [n for n in (f'{h}_path', f'parse_{h}_path') if n not in inv[svc][flavour]]
                if miss:
                    chk.violation(f'visible:{svc}:{w}' + ('' if flavour == 'sync' else ':async'),
                                  f'{svc}{"Async" if flavour == "async" else ""}Client lacks {miss} although the resource is visible '
                                  f'(shape {shape}); offered: {inv[svc][flavour]}', dict(case=c, inventory=inv))


def replay(chk, path):
    """./check C19 --replay <file>: run the recorded failing input again against the current tree."""
    with open(path) as f:
        body = json.load(f)
    key, rep = body['key'], body['case']
    chk.rule = 'replay of one recorded input'
    if 'trace' in rep:
        n, r = tlc.validate_traces('ResourcePathTrace', 'ResourcePathTrace.cfg', [dict(events=rep['trace']['events'])],
                                   env={'JAVA_TOOL_OPTIONS': '-Xmx1g'})
        if n is None:
            raise core.MachineryError('trace validation machinery failure:\n' + r.out[-2000:])
        chk.states += r.distinct; chk.transitions += r.generated
        chk.case(key)
        if n < 1:
            chk.violation(key, 'ResourcePathTrace still rejects the recorded steps (recorded from the tree at the time of the '
                               'original run; run the check itself to record new ones)', rep)
        else:
            chk.traces += 1
        return
    c = rep['case']
    if 'place' in c:
        ok, out, err = _run_api(dict(api=vis_api(c['place']), payload=dict(module=VMODULE, services=[dict(name='S1'), dict(name='S2')],
                                                                           inventory=True, resources=[])))
        if not ok:
            raise core.MachineryError(err)
        check_visible(chk, c, out['inventory'])
        return
    T = _tr(c.get('_cmap') or {})
    c['_args'] = [T(v) for v in c['args']]; c['_kwargs'] = dict(zip(c['names'], c['_args']))
    helper = 'common_' + c['common'] if c['common'] else 'r0'
    api = path_api([] if c['common'] else [(0, c['pattern'])])
    ads = bool(c.get('_ads'))
    res = [dict(service='Rp', helper=helper, calls=[dict(id=0, kind=c['kind'], args=c['_kwargs'], str=T(c['str']))])]
    ok, out, err = _run_api(dict(api=api, opts=ADS_OPTS if ads else OPTS,
                                 payload=dict(module=ADS_MODULE if ads else MODULE, services=[dict(name='Rp')], inventory=False,
                                              sync_only=ads, resources=res)))
    if not ok:
        raise core.MachineryError(err)
    chk.case(key)
    for cls, text in classify(c, out['obs'][0], T):
        chk.violation(('ads:' if ads else '') + f'{cls}:{c["pattern"]}', text,
                      dict(case={x: c[x] for x in c if x != '_T'}, observed=out['obs'][0]))


def size_key(c):
    return (c['nvars'], len(c['pattern']), c['kind'] != 'built', sum(len(a) for a in c['args']), len(c['str']), c['pattern'], c['args'], c['str'])


def main(chk, args):
    if getattr(args, 'replay', None):
        return replay(chk, args.replay)
    quick = chk.tier == 'quick'
    rnd = random.Random(chk.seed)
    phase, t0 = {}, time.time()

    def mark(name):
        nonlocal t0
        phase[name] = round(time.time() - t0, 1); t0 = time.time()
    # ---- 1. the specification satisfies the property within the bounds; mutants are rejected ---------------
    # ---- 2. spec -> code cases (all TLC runs are started together; accounting in a fixed order) -------------
    checks = [('small', 'ResourcePath.small.cfg')] + ([] if quick else [('full', 'ResourcePath.full.cfg'),
                                                                       ('deep', 'ResourcePath.deep.cfg')])
    mutants = ['segment_only', 'dot_any'] if quick else ['segment_only', 'unanchored', 'greedy', 'dot_any']

    def run_checks():
        return [(label, tlc.run('ResourcePath', cfg, workers=8 if quick else 12, deadlock=False, timeout=3000,
                                java_opts=['-Xmx6g'])) for label, cfg in checks]
    # every JVM gets an explicit heap bound (the default is a quarter of the machine per process)
    with ThreadPoolExecutor(16) as ex, ThreadPoolExecutor(12 if quick else 6) as exsim:
        fc = ex.submit(run_checks)
        fvis = ex.submit(tlc.run, 'ResourcePath', 'ResourcePath.vis.cfg', workers=2, deadlock=False, timeout=600,
                         java_opts=['-Xmx1g'])
        fm = {m: ex.submit(tlc.run, 'ResourcePath', _cfg_text('ResourcePath.small.cfg', Mutant=f'"{m}"', NaiveMax=0),
                           workers=2, deadlock=False, timeout=900, java_opts=['-Xmx1g']) for m in mutants}
        handles = submit_emission(ex, exsim, chk.seed, quick)
        for label, r in fc.result():
            chk.add_tlc(r, f'ResourcePath model check ({label})')
        chk.add_tlc(fvis.result(), 'VisibleResources model check')
        rejected = {}
        for m, f in fm.items():
            r = f.result()
            if not (r.violated or '').startswith('Inv_'):
                raise core.MachineryError(f'spec mutant {m} was not rejected by TLC: violated={r.violated} rc={r.rc}\n{r.out[-1500:]}')
            rejected[m] = r.violated
        chk.extra['spec_mutants_rejected'] = rejected
        mark('model_check')
        cases, vcases = collect_emission(chk, handles)
    mark('emit_cases')
    bypat = {}
    for c in cases:
        bypat.setdefault(c['pattern'], []).append(c)
    patterns = sorted(bypat, key=lambda p: (bypat[p][0]['nvars'], len(p), p))
    if quick and len(patterns) > 300:
        fixed = [p for p in patterns if bypat[p][0]['src'] == 'small']
        rest = [p for p in patterns if bypat[p][0]['src'] != 'small']
        patterns = fixed + sorted(rnd.sample(rest, 300 - len(fixed)))
    chk.exhaustive = not quick
    # ---- 3. concretise: ~30 patterns per API, real generator, emitted helpers ---------------------------------
    jobs, meta = [], {}
    cid = 0
    plist = [p for p in patterns if not bypat[p][0]['common']]
    commons = [p for p in patterns if bypat[p][0]['common']]

    # Variable names are positional in the specification (VarName(i)); the concrete names are a choice of the
    # concretisation.  The second API of each template set spells them with reserved (non-keyword) words: the keyword
    # of <name>_path and the key of the parsed dict must both be the name written in the pattern.
    RESERVED_VARS = ['object', 'type', 'format', 'license', 'list', 'range', 'hash', 'slice']

    def rename(c0, nm):
        if not nm:
            return c0
        c = dict(c0)
        c['pattern'] = _ARG.sub(lambda m: '{' + nm.get(m.group(1), m.group(1)) + (m.group(2) or '') + '}', c0['pattern'])
        c['names'] = [nm.get(n, n) for n in c0['names']]
        return c

    def pack(plist, ads):
        """~30 patterns per API; the five common resources ride on the first API of each template set."""
        nonlocal cid
        for a in range(0, len(plist), PER_API):
            chunk = list(enumerate(plist[a:a + PER_API]))
            la, lb = rnd.sample(POOL, 2) if a else ('a', 'b')
            special = (a == PER_API) or (len(plist) <= PER_API)
            nmap = {}
            if special:
                for _, p in chunk:
                    for n in bypat[p][0]['names']:
                        nmap.setdefault(n, RESERVED_VARS[len(nmap) % len(RESERVED_VARS)])
            resources = []
            entries = chunk + ([(None, p) for p in commons] if a == 0 else [])
            if a == 0 and commons and len(plist) >= 2:
                # same short name as a common resource, another pattern: one listed (and called) before the common
                # helpers, one after them
                two = [p for p in plist if bypat[p][0]['nvars'] == 2][:1] or plist[:1]
                one = [p for p in plist if bypat[p][0]['nvars'] == 1 and p not in two][:1] or plist[-1:]
                entries = [('Folder', two[0])] + entries + [('Project', one[0])]
            api_chunk = []
            for i, p in entries:
                if i is None:
                    la_, lb_ = 'a', 'b'      # literals of the common patterns contain the letters a and b
                else:
                    la_, lb_ = la, lb
                    api_chunk.append((i, rename(bypat[p][0], nmap)['pattern'] if not isinstance(i, str) else p))
                calls = []
                todo = [rename(c0, nmap if isinstance(i, int) else {}) for c0 in bypat[p]]
                if ads and len(todo) > 60:      # the Ads share: a seeded sample of the rounds of this pattern
                    todo = [todo[j] for j in sorted(rnd.sample(range(len(todo)), 60))]
                for c0 in todo:
                    c = dict(c0)
                    c['_T'] = (lambda s, la=la_, lb=lb_: ''.join(la if ch == 'a' else lb if ch == 'b' else ch for ch in s))
                    c['_cmap'] = {'a': la_, 'b': lb_}
                    c['_ads'] = ads
                    c['_tag'] = f'own-{i.lower()}:' if isinstance(i, str) else ''
                    c['_args'] = [c['_T'](v) for v in c['args']]
                    c['_kwargs'] = dict(zip(c['names'], c['_args']))
                    meta[cid] = c
                    calls.append(dict(id=cid, kind=c['kind'], args=c['_kwargs'], str=c['_T'](c['str'])))
                    cid += 1
                resources.append(dict(service='Rp', helper=i.lower() if isinstance(i, str) else f'r{i}' if i is not None
                                      else 'common_' + bypat[p][0]['common'], calls=calls))
            jobs.append(dict(api=path_api(api_chunk), opts=ADS_OPTS if ads else OPTS,
                             payload=dict(module=ADS_MODULE if ads else MODULE, services=[dict(name='Rp')], inventory=False,
                                          sync_only=ads, resources=resources)))

    pack(plist, False)
    # a share of the patterns also goes through the Ads template set (sync client only): one pattern of every class
    # (number of variables, tail, leading collection id, set of separators used) - all classes in thorough, a covering
    # sample in quick
    classes = {}
    for p in plist:
        classes.setdefault(pattern_class(p), p)
    if quick:
        chosen, seen_nt, seen_st = [], set(), set()
        for k in sorted(classes, key=lambda k: (k[0], k[1], k[2], sorted(k[3]))):
            nt = (k[0], k[1]); st = {(sp, k[1]) for sp in k[3]}
            if nt not in seen_nt or not st <= seen_st:
                chosen.append(k); seen_nt.add(nt); seen_st |= st
        others = sorted((k for k in classes if k not in chosen), key=lambda k: (k[0], k[1], k[2], sorted(k[3])))
        chosen += rnd.sample(others, max(0, min(len(others), 2 * PER_API - len(chosen))))
    else:
        chosen = list(classes)
    ads_plist = sorted((classes[k] for k in chosen), key=lambda p: (bypat[p][0]['nvars'], len(p), p))
    n_std = len(jobs)
    pack(ads_plist, True)
    chk.extra['ads_patterns'] = len(ads_plist); chk.extra['ads_apis'] = len(jobs) - n_std
    # VisibleResources shapes
    vcases.sort(key=lambda c: json.dumps(c['place'], sort_keys=True))
    if quick:     # every placement once: 7 shapes with two different placements each
        places = sorted({c['place']['r1'] for c in vcases})
        k = rnd.randrange(len(places))
        places = places[k:] + places[:k]
        want = {(places[j], places[(j + 1) % len(places)]) for j in range(0, len(places), 2)}
        vcases = [c for c in vcases if (c['place']['r1'], c['place']['r2']) in want]
    vjobs = [dict(api=vis_api(c['place']), payload=dict(module=VMODULE, services=[dict(name='S1'), dict(name='S2')],
                                                        inventory=True, resources=[])) for c in vcases]
    obs, inventories = {}, []
    with ProcessPoolExecutor(16) as ex:
        results = list(ex.map(_run_api, jobs + vjobs))
    for j, (ok, out, err) in enumerate(results):
        if not ok:
            raise core.MachineryError(f'generation / driver failed for API {j}:\n{err}')
        if j < len(jobs):
            for o in out['obs']:
                obs[o['id']] = o
        else:
            inventories.append(out['inventory'])
    if len(obs) != len(meta):
        raise core.MachineryError(f'driver returned {len(obs)} observations for {len(meta)} calls')

    mark('generate_and_drive')
    # ---- 4. spec -> code comparison -------------------------------------------------------------------------------
    bad = {}           # key -> list of (case, obs, text)
    flagged = set()
    outside = 0
    for i in sorted(meta):
        c, o = meta[i], obs[i]
        chk.case((c['pattern'], c['_args'], o['parse_in'] if c['kind'] == 'foreign' else '', 'ads' if c['_ads'] else ''),
                 nontrivial=c['nvars'] >= 1 and (bool(c['parsed']) or c['kind'] == 'foreign'))
        outside += 0 if c['inq'] else 1
        for cls, text in classify(c, o, c['_T']):
            bad.setdefault(('ads:' if c['_ads'] else '') + c.get('_tag', '') + f'{cls}:{c["pattern"]}', []).append((c, o, ('[Ads templates] ' if c['_ads'] else '') + text))
            if cls not in ('helper', 'async'):         # the recorded steps themselves disagree with the specification
                flagged.add(i)
    per_class = {}
    for key in bad:
        per_class.setdefault(key.rsplit(':', 1)[0], []).append(key)      # patterns contain no ':'
    reported = {}
    for cls, keys in sorted(per_class.items()):
        keys.sort(key=lambda k: size_key(min((x[0] for x in bad[k]), key=size_key)))
        for k in keys[:25]:          # smallest failing patterns first; the totals go to the evidence file
            c, o, text = min(bad[k], key=lambda x: size_key(x[0]))
            chk.violation(k, f'{text}  [{len(bad[k])} failing case(s) for this pattern; {len(keys)} pattern(s) in class {cls}]',
                          dict(case={x: c[x] for x in c if x != '_T'}, observed=o))
            reported[k] = len(bad[k])
    chk.extra['failing_patterns_by_class'] = {cls: len(keys) for cls, keys in per_class.items()}
    chk.extra['failing_cases_by_class'] = {cls: sum(len(bad[k]) for k in keys) for cls, keys in per_class.items()}

    # VisibleResources: every predicted helper is offered by the sync and the asyncio client of that service
    for c, inv in zip(vcases, inventories):
        check_visible(chk, c, inv)

    mark('compare')
    # ---- 5. code -> spec: batched trace validation -------------------------------------------------------------------
    groups = {}
    nflag = 0
    for i in sorted(meta):
        c, o = meta[i], obs[i]
        if not all(o['has_sync']) or o['built'] is None or o['parsed'] is None or (o['rebuilt'] is None and o['parsed']):
            continue
        if i in flagged:
            if nflag >= 2:
                continue          # already reported by the comparison; a few are kept to confirm TLC agrees
            nflag += 1
        groups.setdefault((c['pattern'], i if i in flagged else -1), []).append((c, o))
    traces, tkeys = [], []
    for (p, fl), lst in groups.items():
        for a in range(0, len(lst), 400):
            ev = pattern_events(p)
            for n, (c, o) in enumerate(lst[a:a + 400]):
                ev += ([dict(ev='again')] if n else []) + call_events(c, o)
            traces.append(dict(pattern=p, n=len(lst[a:a + 400]), events=ev))
            tkeys.append((p, fl))
    # flagged traces go to their own batch (each rejection costs one more TLC run); clean ones in batches of ~2500 rounds
    shards = [[t for t in range(len(traces)) if tkeys[t][1] >= 0]]
    shards = [s for s in shards if s]
    cur, w = [], 0
    per_shard = 2500 if quick else 12000
    for t in range(len(traces)):
        if tkeys[t][1] >= 0:
            continue
        cur.append(t); w += traces[t]['n']
        if w >= per_shard:
            shards.append(cur); cur, w = [], 0
    if cur:
        shards.append(cur)

    def _val(ix):
        return tlc.validate_all('ResourcePathTrace', 'ResourcePathTrace.cfg', [traces[t] for t in ix], timeout=2400,
                                env={'JAVA_TOOL_OPTIONS': '-Xmx3g'})
    with ThreadPoolExecutor(8) as ex:
        vres = list(ex.map(_val, shards))
    acc_calls = 0
    nrej = 0
    for ix, (accepted, rejected, runs) in zip(shards, vres):
        for r3 in runs:
            chk.states += r3.distinct; chk.transitions += r3.generated
        rej = {ix[j] for j, _, _ in rejected}
        if len(rejected) >= 10:
            raise core.MachineryError('more than 10 rejected traces in one batch; verdicts incomplete')
        acc_calls += sum(traces[t]['n'] for t in ix if t not in rej)
        for j, t, info in rejected:
            p, fl = tkeys[ix[j]]
            nrej += 1
            if fl >= 0:
                ks = [k for k in bad if not k.startswith(('helper:', 'async:', 'ads:helper:')) and any(x[0] is meta[fl] for x in bad[k])]
                key = 'trace:' + (ks[0] if ks else f'flagged:{p}')
            else:
                key = f'trace:unflagged:{p}'
            chk.violation(key, f'ResourcePathTrace rejected the recorded helper calls for pattern {p!r}: {info}',
                          dict(trace=dict(pattern=p, events=_upto_failing_round(t['events'], info)), info=info))
    chk.tlc_runs.append(dict(label='ResourcePathTrace batches', runs=sum(len(v[2]) for v in vres), shards=len(shards),
                             traces=len(traces), helper_rounds_accepted=acc_calls, rejected=nrej))
    chk.traces += acc_calls
    if nflag and nrej < nflag:
        raise core.MachineryError(f'{nflag} observations disagreed with the predictions but only {nrej} traces were rejected '
                                  f'(the two bindings disagree)')

    mark('trace_validation')
    chk.extra['phase_s'] = phase
    # ---- 6. evidence --------------------------------------------------------------------------------------------------
    nv = {}
    for p in patterns:
        nv[bypat[p][0]['nvars']] = nv.get(bypat[p][0]['nvars'], 0) + 1
    chk.rule = ('cases = (pattern, segment values, string handed to parse) chosen by TLC: exhaustive small scopes '
                '(ResourcePath.emit.small/mid.cfg), every pattern of the grammar up to 6 variables with two probe '
                'assignments (emit.wide, thorough), seeded simulation with 1..6 variables, values <= 3 characters over '
                '{a, b, /, -, _, ~, .} minus the delimiters of the pattern, strings perturbed by delete/append/prepend/'
                'substitute/insert; plus VisibleResources shapes (2 resources x 14 placements). non-trivial = at least one '
                'variable and (a non-empty predicted dict or a foreign string); distinct by (pattern, concrete values, string)')
    for i in sorted(meta)[:2] + sorted(meta)[-3:]:
        c, o = meta[i], obs[i]
        chk.sample(dict(pattern=c['pattern'], kind=c['kind'], kwargs=c['_kwargs'], built=o['built'], parse_in=o['parse_in'],
                        parsed=o['parsed'], predicted=c['parsed'], in_quantifier=c['inq'], rebuilt=o['rebuilt']))
    if vcases:
        chk.sample(dict(visible_shape=vcases[0]['place'], s1=vcases[0]['s1'], s2=vcases[0]['s2']))
    chk.assumptions += [
        'segment values are over characters that are not delimiters of the pattern and contain no line break '
        '(abstract letters a/b are mapped to printable characters incl. regex metacharacters and non-ASCII)',
        'a string that matches the pattern only with a value containing one of its delimiters (e.g. c0/a/b for c0/{v0}) '
        'is outside the quantifier: the returned dict is not compared for such strings',
        'helpers are required for visible resources; extra helpers are not a violation',
        'one pattern of every class (variables x tail x leading id x separators used; all classes in thorough, a covering '
        'sample in quick) and the common resources are also run through the Ads template set, whose client has no asyncio twin',
        'patterns follow the grammar of the property: optional leading collection id, variables separated by /id/ or by one '
        'of - _ ~ ., optional singleton suffix or trailing {v=**}, the wildcard *, and the five common resources']
    chk.extra.update(patterns=len(patterns), patterns_by_nvars=nv, apis_generated=len(jobs) + len(vjobs), helper_rounds=len(meta),
                     strings_outside_quantifier_not_compared=outside, visible_shapes=len(vcases),
                     violation_keys_reported=len(reported))


main.level = 'model_checking'
