"""C19 - resource path helpers build and parse names as mutual inverses.

spec      : spec/ResourcePath.tla.  Patterns are token sequences (lit / var / trailing multi), values and names
            are sequences of characters.  Build = concatenation; Parse is the declarative inverse on the domain the
            property states.  TLC checks round trip, inverse, non-match => {}, wildcard, ** and uniqueness of the
            parse (ResourcePath.small/full/deep.cfg), the VisibleResources table against its graph semantics
            (ResourcePath.vis.cfg) and rejects the self-test mutants.
spec->code: TLC emits cases (pattern, segment values, built name, string handed to parse, predicted dict, predicted
            rebuild; ResourcePath.emit.*.cfg, exhaustive for small scopes, wide sweep of all patterns up to six
            variables, seeded simulation beyond).  ~30 patterns are packed per generated API as message resources,
            file-level resource definitions and referenced resources; the REAL generator emits the library and
            harness/drivers/respath.py calls <name>_path / parse_<name>_path on the sync and asyncio client classes.
            VisibleResources shapes (ResourcePath.emit.vis.cfg) are generated one API each and the helper inventory
            of both services is compared with the predicted set (inclusion only: the property requires helpers, it
            does not forbid extra ones).
code->spec: the observed (pattern, values, built, parsed, rebuilt) steps are validated by spec/ResourcePathTrace.tla.

Violation keys (stable, one class each):
  sep-dot:<pattern>     the pattern has a literal "." and the observed dict is exactly what an unescaped "." in the
                        parsing regex yields (prediction `dotany` of the specification's mutant) - design finding F11
  roundtrip:<pattern>   parse(build(a)) != a        nonmatch:<pattern>  non-matching string parsed to a non-empty dict
  parse:<pattern>       other wrong dict            build:<pattern>     wrong built name
  rebuild:<pattern>     build(parse(s)) != s        helper:<pattern> / async:<pattern>  helper missing / differs
  visible:<svc>:<placement>   a required helper is not offered   trace:<key>  ResourcePathTrace rejected the steps
"""
import json
import os
import random
import re
from concurrent.futures import ProcessPoolExecutor, ThreadPoolExecutor

from .. import core, gen, tlc

PKG = 'acme.rp.v1'
MODULE = 'acme.rp_v1'
VPKG = 'acme.vis.v1'
VMODULE = 'acme.vis_v1'
PER_API = 30
SEPCHARS = '/-_~.'
# concrete characters the abstract letters a / b may stand for (never a delimiter; no line break: see assumptions)
POOL = list('abxyzAQ07 %:@+=!$^()[]{}|\\?*#&\',;<>"') + ['é', '日']
COMMON = ['billing_account', 'folder', 'organization', 'project', 'location']
_ARG = re.compile(r'\{([^{}=]+)(=\*\*)?\}')


# ---------------------------------------------------------------------------------------------------------
# projections (pure splitting, no expectation)
def tokens(pattern):
    """pattern text -> [{k, s, n}] with s a list of characters."""
    out, pos = [], 0
    for m in _ARG.finditer(pattern):
        if m.start() > pos:
            out.append(dict(k='lit', s=list(pattern[pos:m.start()]), n=''))
        out.append(dict(k='multi' if m.group(2) else 'var', s=[], n=m.group(1)))
        pos = m.end()
    if pos < len(pattern):
        out.append(dict(k='lit', s=list(pattern[pos:]), n=''))
    return out


def pattern_events(pattern):
    """the steps of the specification that spell this pattern (TClose checks the result token by token)."""
    if pattern == '*':
        return [dict(ev='wild')]
    toks = tokens(pattern)
    ev, i = [], 0
    lead = toks[0]['k'] == 'lit'
    coll = toks[0]['s'][:-1] if lead else []
    i = 1 if lead else 0
    ev.append(dict(ev='begin', lead=lead, coll=coll, name=toks[i]['n']))
    i += 1
    while i + 1 < len(toks):
        lit = toks[i]['s']
        if len(lit) == 1:
            ev.append(dict(ev='extend', sep=lit[0], coll=[], name=toks[i + 1]['n']))
        else:
            ev.append(dict(ev='extend', sep=lit[0], coll=lit[1:-1], name=toks[i + 1]['n']))
        i += 2
    if i < len(toks):
        ev.append(dict(ev='close', tail='single', coll=toks[i]['s'][1:], tokens=toks))
    else:
        ev.append(dict(ev='close', tail='multi' if toks[-1]['k'] == 'multi' else 'plain', coll=[], tokens=toks))
    return ev


def call_events(case, o):
    """one helper round as observed: values handed in, built name, string parsed, dict, rebuild."""
    ev = [dict(ev='value', v=list(v)) for v in case['_args']]
    ev.append(dict(ev='build', built=list(o['built'])))
    if case['kind'] == 'foreign':
        ev.append(dict(ev='foreign', str=list(o['parse_in'])))
    ev.append(dict(ev='parse', names=[k for k, _ in o['parsed']], vals=[list(v) for _, v in o['parsed']]))
    ev.append(dict(ev='compare', rebuilt=list(o['rebuilt'] or '')))
    return ev


# ---------------------------------------------------------------------------------------------------------
# abstract APIs
def path_api(patterns):
    """~30 patterns in one API; the resource is made visible in three different ways (i mod 3)."""
    msgs, defs, reqf, midf = [], [], [dict(name='name')], [dict(name='x')]
    for i, p in patterns:
        typ = f'ex.com/R{i}'
        how = i % 3
        if how == 1:
            defs.append(dict(type=typ, patterns=[p]))
            reqf.append(dict(name=f'n{i}', **({'ref': typ} if (i // 3) % 2 == 0 else {'child_ref': typ})))
        else:
            msgs.append(dict(name=f'R{i}', resource=dict(type=typ, patterns=[p]), fields=[dict(name='name')]))
            (reqf if how == 0 else midf).append(dict(name=f'r{i}', type=f'R{i}'))
    msgs += [dict(name='Mid', fields=midf), dict(name='Req', fields=reqf),
             dict(name='Resp', fields=[dict(name='mid', type='Mid')])]
    return dict(files=[dict(name='acme/rp/v1/rp.proto', package=PKG, messages=msgs, resource_definitions=defs,
                            services=[dict(name='Rp', methods=[dict(name='Do', **{'in': 'Req', 'out': 'Resp'})])])])


def vis_api(place):
    """one API per VisibleResources shape (spec: ResourcePath.tla, Placements)."""
    msgs, defs, depdefs, s1, s2 = [], [], [], [], []
    for r, w in sorted(place.items()):
        R = r.upper()
        typ = f'ex.com/Res{R}'
        res = dict(type=typ, patterns=[f'res{r}s/{{res_{r}}}'])
        f = {k: [dict(name='x')] for k in ('Req', 'Resp', 'Mid', 'LReq', 'LroResp', 'LroMeta', 'OReq', 'OResp')}
        f['Resp'].append(dict(name='mid', type=f'Mid{R}'))
        where = dict(req_field='Req', resp_nested='Mid', lro_resp='LroResp', lro_meta_only='LroMeta', other_service='OReq')
        if w in where:
            f[where[w]].append(dict(name='res', type=f'Res{R}'))
        if w in ('ref_in_req', 'file_ref', 'dep_file_ref'):
            f['Req'].append(dict(name='target', ref=typ))
        if w == 'child_ref_resp':
            f['Resp'].append(dict(name='parent', child_ref=typ))
        if w == 'ref_nested':
            f['Mid'].append(dict(name='target', ref=typ))
        for k, fl in f.items():
            m = dict(name=k + R, fields=fl)
            if w == 'req_self' and k == 'Req':
                m['resource'] = res
            msgs.append(m)
        if w == 'file_ref' or w == 'file_unref':
            defs.append(res)
        elif w == 'dep_file_ref':
            depdefs.append(res)
        elif w != 'req_self':
            msgs.append(dict(name=f'Res{R}', resource=res, fields=[dict(name='name')]))
        s1.append(dict(name=f'M{R}', **{'in': f'Req{R}', 'out': f'Resp{R}'}))
        s1.append(dict(name=f'L{R}', **{'in': f'LReq{R}', 'out': 'google.longrunning.Operation'},
                       lro=dict(resp=f'{VPKG}.LroResp{R}', meta=f'{VPKG}.LroMeta{R}')))
        s2.append(dict(name=f'O{R}', **{'in': f'OReq{R}', 'out': f'OResp{R}'}))
    return dict(files=[dict(name='acme/dep/v1/dep.proto', package='acme.dep.v1', target=False,
                            messages=[dict(name='Unused', fields=[dict(name='x')])], resource_definitions=depdefs),
                       dict(name='acme/vis/v1/vis.proto', package=VPKG, messages=msgs, resource_definitions=defs,
                            services=[dict(name='S1', methods=s1), dict(name='S2', methods=s2)])])


def _run_api(job):
    """worker: real generator -> emitted tree -> driver in a fresh interpreter.  Returns (ok, result, err)."""
    try:
        with gen.scratch() as work:
            req, res = gen.generate_api(job['api'], dict(transport=['grpc'], snippets=False), work)
            root = gen.materialise(res, os.path.join(work, 'out'))
            return gen.run_driver('harness.drivers.respath', root, job['payload'], timeout=900)
    except Exception as e:  # generation failed: machinery, reported by the caller
        import traceback
        return False, None, f'{type(e).__name__}: {e}\n{traceback.format_exc()[-1500:]}'
