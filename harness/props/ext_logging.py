"""EXT_LOGGING (specification growth, registered in no property): client-side debug logging of the emitted transports
is observational.  spec: spec/Logging.tla (self-composition over the logging mode; 12 invariants, 3 action properties,
liveness, 8 mutants); every TLC case is replayed on the emitted sync gRPC, asyncio gRPC and REST clients in three
processes (logging off / enabled by logger level / enabled by GOOGLE_SDK_PYTHON_LOGGING_SCOPE); spec/LoggingTrace.tla
validates the recorded traces.  Violation keys:  <transport>:<kind>:<enabled|disabled>:<aspect>:<failing inputs>."""
import copy
import os
from concurrent.futures import ThreadPoolExecutor

from .. import core, gen, pipeline, tlc
from ..drivers import logging_probe as lp

MODES = ('off', 'level', 'env')
INPUT = ('transport', 'kind', 'status', 'md', 'reqv', 'replyv')
FIELDS = ('ev', 'payload', 'rpc', 'md', 'logger')
# mutant -> the invariant of Logging.tla that must reject it (checked alone, so that every clause is shown to bite)
MUTANTS = (('log_after_send', 'Inv_RequestRecordBeforeServed'), ('response_on_error', 'Inv_NoResponseRecordOnError'),
           ('payload_other_request', 'Inv_RequestRecordFaithful'), ('double_record', 'Inv_OneRequestRecord'),
           ('alters_metadata', 'Inv_Observational'), ('log_when_disabled', 'Inv_DisabledSilent'),
           ('extra_call', 'Inv_Reference'), ('resp_payload_request', 'Inv_ResponseRecordFaithful'),
           ('alters_metadata', 'Inv_RecordMdMatchesSent'))
TLC_WORKERS = 4


def _norm(e):
    return dict(ev=e['ev'], payload=e['payload'], rpc=e['rpc'], md=sorted(list(p) for p in e['md']), logger=e['logger'])


def _one(evs, name):
    return [e for e in evs if e['ev'] == name]


def aspects(exp, exp_calls, obs, obs_calls):
    """spec -> code: predicted hist of one run vs projection of the observed one -> [(aspect, detail)]."""
    d = []
    exp = [_norm(e) for e in exp]; obs_n = [_norm(e) for e in obs]
    er, or_ = _one(exp, 'return'), _one(obs_n, 'return')
    if len(or_) == 1 and or_[0]['payload'].startswith('X:') and er[0]['payload'] != or_[0]['payload']:
        # an exception that is no API error escaped: the call did not take place as a call; the missing records / server
        # event / channel call are consequences and not reported on their own
        return [('caller-outcome', f"observed {or_[0]['payload']!r}, predicted {er[0]['payload']!r}; events observed: {[e['ev'] for e in obs_n]}")]
    for ev, nm in (('logreq', 'request-record-count'), ('logresp', 'response-record-count'), ('served', 'server-receive-count')):
        if len(_one(exp, ev)) != len(_one(obs_n, ev)):
            d.append((nm, f'{len(_one(obs_n, ev))} observed, {len(_one(exp, ev))} predicted'))
    if _one(obs_n, 'logother'):
        d.append(('unexpected-record', str([e.get('text') for e in obs if e['ev'] == 'logother'][:2])))
    order_e = [e['ev'] for e in exp]; order_o = [e['ev'] for e in obs_n]
    if sorted(order_e) == sorted(order_o) and order_e != order_o:
        d.append(('event-order', f'observed {order_o}, predicted {order_e}'))
    for ev, pre in (('logreq', 'request'), ('logresp', 'response')):
        eo, oo = _one(exp, ev), _one(obs_n, ev)
        if len(eo) == 1 and len(oo) == 1:
            raw = [e for e in obs if e['ev'] == ev][0]
            for f, nm in (('payload', 'payload'), ('rpc', 'rpcName'), ('logger', 'logger'), ('md', 'metadata')):
                if eo[0][f] != oo[0][f]:
                    extra = f" (rpcName logged: {raw.get('rpcName')!r})" if f == 'rpc' else ''
                    d.append((f'{pre}-{nm}', f'observed {oo[0][f]!r}, predicted {eo[0][f]!r}{extra}'))
    es, os_ = _one(exp, 'served'), _one(obs_n, 'served')
    if len(es) == 1 and len(os_) == 1:
        if es[0]['payload'] != os_[0]['payload']:
            d.append(('server-request', f"observed {os_[0]['payload']!r}, predicted {es[0]['payload']!r}"))
        if es[0]['md'] != os_[0]['md']:
            d.append(('server-metadata', f"observed {os_[0]['md']!r}, predicted {es[0]['md']!r}"))
    if len(or_) != 1:
        d.append(('caller-outcome', f'{len(or_)} return events'))
    elif er[0]['payload'] != or_[0]['payload']:
        d.append(('caller-outcome', f"observed {or_[0]['payload']!r}, predicted {er[0]['payload']!r}"))
    if exp_calls != obs_calls:
        d.append(('channel-calls', f'{obs_calls} observed, {exp_calls} predicted'))
    return d


def _qual(fail, universe):
    """stable name of the set of failing inputs (md, status) inside a group."""
    a = sorted({m for m, _ in fail}); b = sorted({s for _, s in fail})
    if set(fail) == {(m, s) for m in a for s in b}:
        am = sorted({m for m, _ in universe}); bs = sorted({s for _, s in universe})
        return f"md={'*' if a == am else '+'.join(a)},status={'*' if b == bs else '+'.join(b)}"
    return '+'.join(f'{m}/{s}' for m, s in sorted(set(fail)))


def _drive(job):
    root, mode, cases = job
    # the variable exists in the driver process only; an empty value (= no scope) shields the other modes from the caller's environment
    env = {lp.ENV: lp.MODULE if mode == 'env' else ''}
    return mode, gen.run_driver('harness.drivers.logging_probe', root, dict(module=lp.MODULE, mode=mode, cases=cases), env=env)


def validate_total(traces):
    """one LoggingTrace run with total verdicts -> (accepted indices, {rejected index: l}, TLCResult)."""
    n, r = tlc.validate_traces('LoggingTrace', 'LoggingTrace.total.cfg', traces, timeout=600)
    if n != len(traces) or r.violated is not None:
        raise core.MachineryError(f'LoggingTrace (total) did not process the batch: accepted={n} violated={r.violated}\n' + r.out[-3000:])
    rej = {}
    for v in r.tagged.get('REJECTED', []):
        t, l = (int(x) for x in v.split(','))
        rej[t - 1] = l
    return [i for i in range(len(traces)) if i not in rej], rej, r


def main(chk, args):
    r = tlc.run('Logging', 'Logging.cfg', deadlock=False, workers=TLC_WORKERS, coverage=True)
    chk.add_tlc(r, 'Logging model check (self-composition over 3 logging modes)')
    chk.extra['action_coverage'] = dict(r.coverage)
    for a in ('Enter', 'LogRequest', 'Continue', 'LogResponse', 'Return'):
        if not r.coverage.get(a):
            raise core.MachineryError(f'Logging: action {a} never taken ({r.coverage})')
    killed = []
    for m, inv in MUTANTS:
        cfg = 'CONSTANT Mutant = "%s"\nSPECIFICATION Spec\nINVARIANT %s\n' % (m, inv)
        rm = tlc.run('Logging', cfg, deadlock=False, workers=TLC_WORKERS)
        if rm.ok or rm.violated != inv:
            raise core.MachineryError(f'Logging mutant {m} not rejected by {inv} (violated={rm.violated})\n{rm.out[-1500:]}')
        killed.append(f'{m} -> {inv}')
        chk.tlc_runs.append(dict(label=f'Logging mutant {m} against {inv} alone (must be violated)', **rm.summary()))
    chk.extra['mutants_rejected'] = killed
    cases, r2 = tlc.emit_cases('Logging', 'Logging.emit.cfg', deadlock=False)
    chk.add_tlc(r2, 'Logging case emission')
    cases.sort(key=lambda c: [c[k] for k in INPUT])
    chk.exhaustive = True
    api = lp.carrier_api()
    with gen.scratch() as work:
        req, res = gen.generate_api(api, dict(transport=['grpc', 'rest'], snippets=False), work)
        root = gen.materialise(res, os.path.join(work, 'out'))
        for fdp in req.proto_file:
            if fdp.name.startswith('other/'):
                pipeline.write_pb2(fdp, root)
        payload = [dict(i=i, **{k: c[k] for k in INPUT}) for i, c in enumerate(cases)]
        obs = {}
        with ThreadPoolExecutor(len(MODES)) as ex:
            for mode, (ok, out, err) in ex.map(_drive, [(root, m, payload) for m in MODES]):
                if not ok:
                    raise core.MachineryError(f'logging_probe driver failed (mode {mode}):\n' + err)
                if len(out['obs']) != len(cases):
                    raise core.MachineryError(f'logging_probe (mode {mode}) ran {len(out["obs"])} of {len(cases)} cases')
                for o in out['obs']:
                    if [e['seq'] for e in o['events']] != sorted({e['seq'] for e in o['events']}):
                        raise core.MachineryError('sequence numbers of recorded events are not strictly increasing')
                    obs[(o['i'], mode)] = o
                chk.extra.setdefault('logger_state', {})[mode] = out['logger']

    # ---- spec -> code -------------------------------------------------------------------------------
    fails = {}       # (transport, kind, en, aspect) -> [(md, status, mode, detail, case index)]
    universe = {}    # (transport, kind, en) -> {(md, status)}
    for i, c in enumerate(cases):
        for mode in MODES:
            en = 'disabled' if mode == 'off' else 'enabled'
            g = (c['transport'], c['kind'], en)
            universe.setdefault(g, set()).add((c['md'], c['status']))
            o = obs[(i, mode)]
            e = c['expect'][mode]
            chk.case(f"{c['transport']}/{c['kind']}/{c['status']}/{c['md']}/q{c['reqv']}/r{c['replyv']}/{mode}", nontrivial=True)
            ds = aspects(e['events'], e['calls'], o['events'], o['calls'])
            # (1) directly, on the unprojected observables: the run with logging on against the run with logging off
            if mode != 'off' and o['raw'] != obs[(i, 'off')]['raw']:
                off = obs[(i, 'off')]['raw']
                what = [k for k in sorted(set(o['raw']) | set(off)) if o['raw'].get(k) != off.get(k)]
                ds.append(('observational', f'differs from the run with logging off in {what}: ' +
                           '; '.join(f'{k}: {str(o["raw"].get(k))[:120]} (off: {str(off.get(k))[:120]})' for k in what)))
            for asp, detail in ds:
                fails.setdefault(g + (asp,), []).append((c['md'], c['status'], mode, detail, i))
    for (tr, kind, en, asp), fl in sorted(fails.items()):
        q = _qual([(m, s) for m, s, _, _, _ in fl], universe[(tr, kind, en)])
        md, st, mode, detail, i = fl[0]
        chk.violation(f'{tr}:{kind}:{en}:{asp}:{q}',
                      f'{len(fl)} run(s); e.g. mode={mode} md={md} status={st} reqv={cases[i]["reqv"]} replyv={cases[i]["replyv"]}: {detail}',
                      dict(case=cases[i], mode=mode, observed=obs[(i, mode)], off=obs[(i, 'off')]['raw'], failing_inputs=sorted({(m, s, mo) for m, s, mo, _, _ in fl})))

    # ---- code -> spec -------------------------------------------------------------------------------
    traces, tkeys = [], []
    for i, c in enumerate(cases):
        for mode in MODES:
            traces.append(dict({k: c[k] for k in INPUT}, mode=mode, events=[dict(e, md=[list(p) for p in e['md']]) for e in obs[(i, mode)]['events']]))
            tkeys.append((c['transport'], c['kind'], 'disabled' if mode == 'off' else 'enabled', c['md'], c['status'], mode))
    acc, rej, rt_ = validate_total(traces)
    chk.states += rt_.distinct; chk.transitions += rt_.generated
    chk.tlc_runs.append(dict(label='LoggingTrace batch (total verdicts)', traces=len(traces), accepted=len(acc), rejected=len(rej), **rt_.summary()))
    chk.traces += len(acc)
    cnt = {'Enter (silent)': len(acc)}
    for i in acc:
        for e in traces[i]['events']:
            cnt[e['ev']] = cnt.get(e['ev'], 0) + 1
    chk.extra['trace_action_counts'] = cnt          # steps of accepted traces, per action of LoggingTrace
    groups = {}
    for idx, l in sorted(rej.items()):
        tr, kind, en, md, st, mode = tkeys[idx]
        evs = traces[idx]['events']
        at = evs[l - 1]['ev'] if l <= len(evs) else 'end'
        groups.setdefault((tr, kind, en, at), []).append((md, st, idx, l))
    for (tr, kind, en, at), fl in sorted(groups.items()):
        q = _qual([(m, s) for m, s, _, _ in fl], universe[(tr, kind, en)])
        md, st, idx, l = fl[0]
        evs = traces[idx]['events']
        chk.violation(f'trace:{tr}:{kind}:{en}:rejected-at-{at}:{q}',
                      f'LoggingTrace rejected {len(fl)} recorded call(s); e.g. mode={traces[idx]["mode"]} md={md} status={st}: matched {l - 1} event(s), '
                      f'next: {evs[l - 1] if l <= len(evs) else "(end of trace: the call is not complete)"}',
                      dict(trace=traces[idx], matched_prefix=l - 1))

    # ---- non-vacuity of the trace specification: an accepted trace, corrupted, must be rejected -------
    full = ['logreq', 'served', 'logresp', 'return']
    good = next((traces[i] for i in acc if [e['ev'] for e in traces[i]['events']] == full), None)
    chk.extra['corruption_base'] = 'an accepted trace of the real code' if good else 'the predicted history of a case (no full trace of the real code was accepted)'
    if good is None:
        c = next(c for c in cases if [e['ev'] for e in c['expect']['level']['events']] == full)
        good = dict({k: c[k] for k in INPUT}, mode='level', events=[dict(_norm(e), calls=c['expect']['level']['calls']) for e in c['expect']['level']['events']])
    bad = []
    for f, v in (('payload', 'q2' if good['events'][0]['payload'] == 'q1' else 'q1'), ('rpc', 'other'), ('logger', 'other'), ('md', [['x-verif-z', 'a1']])):
        t = copy.deepcopy(good); t['events'][0][f] = v; bad.append((f'logreq.{f} changed', t))
    t = copy.deepcopy(good); t['events'][2]['payload'] = 'other'; bad.append(('logresp.payload changed', t))
    t = copy.deepcopy(good); t['events'][3]['calls'] = 2; bad.append(('return.calls changed', t))
    for k in (0, 1, 2, 3):
        t = copy.deepcopy(good); del t['events'][k]; bad.append((f'{good["events"][k]["ev"]} removed', t))
    t = copy.deepcopy(good); t['events'][0], t['events'][1] = t['events'][1], t['events'][0]; bad.append(('logreq after served', t))
    t = copy.deepcopy(good); t['mode'] = 'off'; bad.append(('records although logging is off', t))
    acc2, rej2, rb = validate_total([good] + [t for _, t in bad])
    chk.tlc_runs.append(dict(label='LoggingTrace on corrupted traces', traces=1 + len(bad), rejected=len(rej2), **rb.summary()))
    if acc2 != [0]:
        raise core.MachineryError('LoggingTrace accepted corrupted trace(s): ' + ', '.join(bad[i - 1][0] for i in acc2 if i > 0))
    n1, rs = tlc.validate_traces('LoggingTrace', 'LoggingTrace.cfg', [good, bad[0][1], good])
    if n1 != 1:
        raise core.MachineryError(f'LoggingTrace (strict) accepted a prefix of {n1} instead of 1')
    chk.tlc_runs.append(dict(label='LoggingTrace strict on [good, corrupted, good]', accepted_prefix=n1, **rs.summary()))
    chk.extra['corrupted_traces_rejected'] = [f'{n} -> rejected at event {rej2[i + 1]}' for i, (n, _) in enumerate(bad)]

    nrun = len(cases) * len(MODES)
    chk.rule = (f'all {len(cases)} inputs of Logging.tla (transport {{grpc, grpc_asyncio, rest}} x kind {{unary, void, dependency pb2}} x status '
                f'{{OK, NOT_FOUND, PERMISSION_DENIED}} x caller metadata {{none, one, two, duplicate key, -bin text, -bin raw (gRPC only)}} x 2 requests '
                f'x 2 replies) x 3 logging modes {{off, logger level, {lp.ENV}}} = {nrun} calls of the real emitted clients; '
                'predicted observer history compared per aspect, logging-on runs compared with the logging-off run on raw observables, '
                'every run validated by LoggingTrace')
    chk.assumptions += [
        'metadata projection: only the keys the caller gave (x-verif-*) are compared between record and wire; library-added keys '
        '(x-goog-api-client, x-goog-request-params) take part only in the on/off comparison of raw observables',
        'payloads are compared as messages (logged JSON parsed under the INPUT descriptors), not as text',
        'REST: "-bin" metadata is not offered (HTTP headers; a gRPC notion); Host header excluded from the on/off comparison (port differs per process)',
        'the response record of the REST transport for Empty-returning methods is modelled as absent (RestVoidHasNoResponseBlock): '
        'rest.py.j2 emits the block only for non-void methods',
        'the metadata of a record is a dict: of several values under one key the last one survives (LastWins)',
        'one logging mode per driver process (client_logging.initialize_logging() reads the environment once per process)',
    ]
    for i, c in enumerate(cases):
        if c['transport'] == 'grpc_asyncio' and c['status'] == 'OK' and c['md'] == 'dup' and c['kind'] == 'dep':
            chk.sample(dict(input={k: c[k] for k in INPUT}, predicted=c['expect']['env'], observed=[{k: e.get(k) for k in FIELDS + ('seq', 'calls')} for e in obs[(i, 'env')]['events']]))
            break
    chk.sample(dict(input={k: cases[0][k] for k in INPUT}, predicted=cases[0]['expect']['level'],
                    observed=[{k: e.get(k) for k in FIELDS + ('seq', 'calls')} for e in obs[(0, 'level')]['events']]))


main.level = 'model_checking'
