"""C09 - default retry and timeout of each method equal its gRPC service-config entry.

spec      : spec/Retry.tla.  Generation layer (LoadMethod: first methodConfig entry whose name list contains the
            exact {service, method}; duration strings -> ticks; status names) and run-time layer (one client call:
            Attempt / ServerFault / ServerOk / Surface / GiveUp / Backoff / Return, explicit overrides).
spec->code: (a) TLC enumerates service configs (Retry.emit.sel_*.cfg, .values.cfg, .table.cfg) with the resolved
            (retry, timeout) of every method; each config is written as a real retry-config JSON file and loaded by
            the real Options.build + API.build; the Method hook events are compared with the prediction.
            (b) TLC enumerates calls (Retry.emit.run.*.cfg: table config x method x transport x fault script x jitter
            x override) with the predicted attempts, per-attempt timeouts, sleeps (asked bound, slept) and outcome; the
            libraries generated from the table configs (transport grpc+rest, http rules with and without a body) are
            driven under virtual time: sync and asyncio gRPC clients behind the loopback server, and the REST client
            with requests.Session.request replaced by a scripted recorder (the timeout of every HTTP request).
code->spec: the hook events (load) and the recorded call events (invoke attempt fault reply sleep return raise) are
            validated by spec/RetryTrace.tla in batches; every invariant of Retry is evaluated after every step.
"""
import json
import os
import random
import time
from concurrent.futures import ProcessPoolExecutor, ThreadPoolExecutor
from fractions import Fraction

from .. import core, gen, tlc, absapi

PKG = 'acme.rt.v1'
MODULE = 'acme.rt_v1'
U = 512000          # ticks per second, as in Retry.tla
NO = -1
SERVICES = {f'{PKG}.Rt': dict(name='Rt', snake='rt', methods=['Get', 'BatchGet', 'GetMore', 'Put', 'Drop', 'Scan', 'Poll', 'Touch', 'Upload', 'Chat']),
            f'{PKG}.RtAdmin': dict(name='RtAdmin', snake='rt_admin', methods=['Get', 'Put'])}
SNAKE = dict(Get='get', BatchGet='batch_get', GetMore='get_more', Put='put', Drop='drop', Scan='scan', Poll='poll',
             Touch='touch', Upload='upload', Chat='chat')


SUB_AD = f'{PKG}.admin.RtAdmin'     # layout "sub": the second service lives in the proto sub-package acme.rt.v1.admin


def carrier_api(rules=None, sub=False):
    """rules = {'body': [sel..], 'delete': [sel..]} as printed by Retry.tla (HTTPRULES): methods bound with a request
    body (post, body "*") / with DELETE, 'cstream' / 'bidi': client-streaming / bidirectional methods (no http rule);
    every other method is a unary GET without body.  None: unary methods without http rules."""
    msgs = [dict(name='Item', fields=[dict(name='name'), dict(name='id', type='int32')]),
            dict(name='Req', fields=[dict(name='name'), dict(name='note')])]
    svcs = []
    for full, s in SERVICES.items():
        methods = []
        for m in s['methods']:
            md = dict(name=m, **{'in': 'Req', 'out': 'Item'})
            if rules is not None:
                sel = dict(svc=full, meth=m)
                if sel in rules['cstream'] or sel in rules['bidi']:
                    md['cs'] = True
                    md['ss'] = sel in rules['bidi']
                    methods.append(md)
                    continue
                uri = '/v1/%s/{name=items/*}:%s' % (s['snake'], SNAKE[m])
                if sel in rules['body']:
                    md['http'] = [dict(verb='post', uri=uri, body='*')]
                elif sel in rules['delete']:
                    md['http'] = [dict(verb='delete', uri=uri)]
                else:
                    md['http'] = [dict(verb='get', uri=uri)]
            methods.append(md)
        svcs.append(dict(name=s['name'], methods=methods))
    if sub:
        for md in svcs[1]['methods']:
            md['in'], md['out'] = f'.{PKG}.Req', f'.{PKG}.Item'
        return dict(files=[dict(name='acme/rt/v1/rt.proto', package=PKG, messages=msgs, services=svcs[:1]),
                           dict(name='acme/rt/v1/admin/admin.proto', package=PKG + '.admin', messages=[], services=svcs[1:])])
    return dict(files=[dict(name='acme/rt/v1/rt.proto', package=PKG, messages=msgs, services=svcs)])


# ---- concretisation: abstract config of Retry.tla -> gRPC service config JSON (no expectation in here) -----------
def service_config(cfg):
    out = []
    for e in cfg:
        mc = {'name': [({'service': n['svc'], 'method': n['meth']} if n['meth'] else {'service': n['svc']})
                       for n in e['names']]}
        if e['timeout'] != '':
            mc['timeout'] = e['timeout']
        p = e['policy']
        if p['on']:
            rp = {}
            if p['init'] != '':
                rp['initialBackoff'] = p['init']
            if p['max'] != '':
                rp['maxBackoff'] = p['max']
            if p['mult'] != '':
                rp['backoffMultiplier'] = float(p['mult']) if '.' in p['mult'] else int(p['mult'])
            rp['retryableStatusCodes'] = list(p['codes'])
            if p['maxAttempts']:
                rp['maxAttempts'] = p['maxAttempts']
            mc['retryPolicy'] = rp
        out.append(mc)
    return {'methodConfig': out}


# ---- projection of the Method hook event (purely syntactic: unit conversion, class name -> its own status) -------
def ticks(x):
    return NO if x is None else int(round(x * U))


def frac(x):
    f = Fraction(x).limit_denominator(64)
    return [f.numerator, f.denominator] if f.numerator else [0, 1]


def code_of_class(name):
    from google.api_core import exceptions as core_exceptions
    c = getattr(getattr(core_exceptions, name, None), 'grpc_status_code', None)
    return c.name if c is not None else 'CLASS:' + name


def project_method(e):
    r = e['retry']
    if r is None:
        pol = dict(on=False, init=0, max=0, mult=[0, 1], codes=[])
    elif not isinstance(r, dict):
        pol = dict(on=True, init=-9, max=-9, mult=[0, 1], codes=[str(r)])
    else:
        pol = dict(on=True, init=ticks(r['initial']), max=ticks(r['max']), mult=frac(r['mult']),
                   codes=sorted(code_of_class(c) for c in r['codes']))
    return dict(svc=e['service'], meth=e['name'], timeout=ticks(e['timeout']), policy=pol)


def load_events(methods):
    return [dict(ev='load', svc=m['svc'], meth=m['meth'], timeout=m['timeout'], r_on=m['policy']['on'],
                 r_init=m['policy']['init'], r_max=m['policy']['max'], r_mult=m['policy']['mult'],
                 r_codes=m['policy']['codes']) for m in methods]


def predicted_methods(case, sels):
    out = []
    for sel, r in zip(sels, case['resolved']):
        p = r['policy']
        out.append(dict(svc=sel['svc'], meth=sel['meth'], timeout=r['timeout'],
                        policy=dict(on=p['on'], init=p['init'], max=p['max'], mult=list(p['mult']), codes=sorted(p['codes']))))
    return out


# ---- workers (processes with the /repo hooks on) ------------------------------------------------------------------
_REQ = {}


def _init_worker():
    import warnings
    warnings.simplefilter('ignore')
    gen._trace_path = None
    gen.enable_trace()


def _request(rules, sub=False):
    """CodeGeneratorRequest of the carrier API with exactly the transitive imports, as protoc would pass them."""
    if sub not in _REQ:
        api = carrier_api(rules, sub)
        for f in api['files']:
            f['std_deps'] = ['google/api/client.proto', 'google/api/annotations.proto']
        req = absapi.build_request(api, '')
        by = {f.name: f for f in req.proto_file}
        keep = set()

        def visit(n):
            if n not in keep:
                keep.add(n)
                for d in by[n].dependency:
                    visit(d)
        for n in req.file_to_generate:
            visit(n)
        files = [f for f in req.proto_file if f.name in keep]
        del req.proto_file[:]
        req.proto_file.extend(files)
        _REQ[sub] = req
    return _REQ[sub]


def _resolve_chunk(cfgs, rules, sub=False):
    """real Options.build + API.build (pass 2: _get_retry_and_timeout) for each config; no rendering."""
    from gapic.schema import api as gapi
    from gapic.utils import Options
    req = _request(rules, sub)
    AD = f'{PKG}.RtAdmin'
    out = []
    with gen.scratch() as work:
        path = os.path.join(work, 'retry.json')
        for cfg in cfgs:
            with open(path, 'w') as f:
                txt = json.dumps(service_config(cfg))
                f.write(txt.replace(f'"{AD}"', f'"{SUB_AD}"') if sub else txt)
            gen.read_trace()
            err = None
            try:
                opts = Options.build(f'transport=grpc,autogen-snippets=false,retry-config={path}')
                gapi.API.build(req.proto_file, opts=opts, package=PKG)
            except Exception as e:
                err = f'{type(e).__name__}: {e}'[:300]
            ev = [e for e in gen.read_trace() if e['ev'] == 'Method']
            if sub:
                ev = [dict(e, service=AD) if e['service'] == SUB_AD else e for e in ev]
            out.append(dict(error=err, methods=[project_method(e) for e in ev]))
    return out


def _generate_table(args):
    """full generation (real CLI entry) of the carrier API with one table config; materialised under `root`."""
    cfg, root, rules = args
    api = dict(carrier_api(rules), retry=service_config(cfg))
    gen.read_trace()
    try:
        req, res = gen.generate_api(api, dict(transport=['grpc', 'rest'], snippets=False), os.path.dirname(root))
    except Exception as e:
        return dict(error=f'{type(e).__name__}: {e}'[:300], methods=[])
    ev = [e for e in gen.read_trace() if e['ev'] == 'Method']
    gen.materialise(res, root)
    return dict(error=None, methods=[project_method(e) for e in ev])


def _drive(args):
    root, payload = args
    return gen.run_driver('harness.drivers.retry', root, payload, timeout=1500)


WORKERS = 8        # shared machine
JAVA_MEM = {'JAVA_TOOL_OPTIONS': '-Xmx3g'}     # several JVMs run side by side: bound each heap


def _validate(batch):
    try:
        return tlc.validate_all('RetryTrace', 'RetryTrace.cfg', batch, timeout=1500, env=JAVA_MEM)
    except RuntimeError:        # a JVM that could not start / was killed: once more before giving up (exit 2)
        return tlc.validate_all('RetryTrace', 'RetryTrace.cfg', batch, timeout=1500, env=JAVA_MEM)


# ---- comparison ---------------------------------------------------------------------------------------------------
def observed(tr):
    ev = tr['events']
    out = dict(attempts=sum(1 for e in ev if e['ev'] == 'attempt'),
               rpcTimeouts=[e['timeout'] for e in ev if e['ev'] == 'attempt'],
               sleeps=[dict(asked=e['asked'], slept=e['slept']) for e in ev if e['ev'] == 'sleep'],
               faults=[e['code'] for e in ev if e['ev'] == 'fault'],
               outcome='pending', refused=NO)
    last = ev[-1]
    if last['ev'] == 'return':
        out['outcome'] = 'ok'
    elif last['ev'] == 'raise':
        out['outcome'] = last['code']
        if last['code'] == 'RetryError':
            out['refused'] = last['slept']
    return out


def diff_run(exp, obs):
    d = []
    for k in ('attempts', 'faults', 'outcome', 'rpcTimeouts', 'sleeps', 'refused'):
        if exp[k] != obs[k]:
            d.append(f'{k}: observed {obs[k]} != predicted {exp[k]}')
    return d


def cfg_key(cfg):
    def ent(e):
        names = ','.join(sorted((n['svc'].split('.')[-1] + '/' + (n['meth'] or '*')) for n in e['names']))
        p = e['policy']
        pol = (f"{p['init'] or '-'}:{p['max'] or '-'}:{p['mult'] or '-'}:{'+'.join(sorted(p['codes']))}:{p['maxAttempts']}"
               if p['on'] else 'nopolicy')
        return f"[{names}|{e['timeout'] or '-'}|{pol}]"
    return ''.join(ent(e) for e in cfg)


def ovr_key(o):
    t = {-2: 'dflt', -1: 'none'}.get(o['timeout'], str(o['timeout']))
    return f"{o['rmode']}/{t}"


def run_key(c, mode):
    mode = {'sync': 'grpc-sync', 'async': 'grpc-async'}.get(mode, mode)
    if c['sel']['meth'] in ('Upload', 'Chat'):
        mode += '-stream'
    return (f"run:table{c['cid']}/{c['sel']['svc'].split('.')[-1]}.{c['sel']['meth']}/{mode}/{ovr_key(c['ovr'])}/"
            f"{'>'.join(c['script']) or 'OK'}/phi={c['jit'][0]}:{c['jit'][1]}")


SPEC_MUTANTS = ['stream_no_default_retry', 'rest_no_body_no_timeout', 'service_level', 'suffix_match', 'any_service', 'last_match', 'no_deadline', 'ignore_override', 'no_cap',
                'init_uncapped', 'stale_timeout', 'retry_all', 'check_after_sleep']


def spec_mutants(timeout=600):
    """self-test material: every mutant of Retry.tla must be rejected by TLC on the small configuration.
    Returns {mutant: name of the violated invariant or None}."""
    with open(os.path.join(tlc.SPEC, 'Retry.small.cfg')) as f:
        cfg = f.read().replace('PROPERTY Live\n', '')
    out = {}
    for m in SPEC_MUTANTS:
        r = tlc.run('Retry', cfg.replace('Mutant = "none"', f'Mutant = "{m}"'), deadlock=False, timeout=timeout, workers=4, env=JAVA_MEM)
        out[m] = r.violated
    return out


def main(chk, args):
    pool = ThreadPoolExecutor(10)
    try:
        _main(chk, args, pool)
    finally:
        pool.shutdown(wait=False, cancel_futures=True)


def _main(chk, args, pool):
    quick = chk.tier == 'quick'
    rnd = random.Random(chk.seed)
    # 1. TLC: the specification satisfies the property; cases (spec -> code) ------------------------------------------
    scopes = ['table', 'sel_small', 'values'] if quick else ['table', 'sel_small', 'sel_full', 'sel3', 'values']
    runcfgs = ['Retry.emit.run.small.cfg', 'Retry.emit.run.wide.cfg'] if quick else ['Retry.emit.run.full.cfg']
    t0 = time.time()

    def lap(what):
        print(f'[C09] {what}: {time.time() - t0:.0f}s', flush=True)
    # the model-checking runs (invariants; liveness on the small configuration) go on in the background while the cases are executed
    checks = {'small': pool.submit(tlc.run, 'Retry', 'Retry.small.cfg', deadlock=False, timeout=1500, workers=4, env=JAVA_MEM)}
    if not quick:
        checks['full'] = pool.submit(tlc.run, 'Retry', 'Retry.full.cfg', deadlock=False, timeout=1500, workers=4, env=JAVA_MEM)
    futs = {'emit ' + sc: pool.submit(tlc.emit_cases, 'Retry', f'Retry.emit.{sc}.cfg', deadlock=False, timeout=1500, env=JAVA_MEM)
            for sc in scopes}
    for rc in runcfgs:
        futs['emit run ' + rc.split('.')[3]] = pool.submit(tlc.emit_cases, 'Retry', rc, deadlock=False, timeout=1500, env=JAVA_MEM)
    results = {k: f.result() for k, f in futs.items()}
    lap('TLC model checking and case emission')
    resolve_cases, run_cases, sels, rules = [], [], None, None
    for k, r in results.items():
        cases, rr = r
        chk.add_tlc(rr, f'Retry case emission ({k[5:]})')
        if not cases:
            raise core.MachineryError(f'no cases emitted by {k}')
        if rr.tagged.get('SELECTORS'):
            sels = json.loads(json.loads(rr.tagged['SELECTORS'][0]))
            rules = json.loads(json.loads(rr.tagged['HTTPRULES'][0]))
        (run_cases if k.startswith('emit run') else resolve_cases).extend(cases)
    if not sels:
        raise core.MachineryError('the specification did not print its selectors')
    table = {c['cid']: c for c in resolve_cases if c['cid'] > 0}
    seen = set()
    enum_cases = []
    for c in resolve_cases:
        if c['cid'] == 0:
            k = json.dumps(c['cfg'], sort_keys=True)
            if k not in seen:
                seen.add(k)
                enum_cases.append(c)
    chk.exhaustive = True
    cids = sorted(set(c['cid'] for c in run_cases))
    if any(cid not in table for cid in cids):
        raise core.MachineryError('run cases refer to a config the table emission did not print')

    traces = []          # (key, trace for RetryTrace, context for reports)
    with gen.scratch() as work:
        with ProcessPoolExecutor(WORKERS, initializer=_init_worker) as ex:
            # 2a. generation layer: enumerated configs through the real Options.build + API.build ------------------------
            chunks = [enum_cases[i:i + 40] for i in range(0, len(enum_cases), 40)]
            fut_res = [ex.submit(_resolve_chunk, [c['cfg'] for c in ch], rules) for ch in chunks]
            # ... and once more with the second service in a proto SUB-PACKAGE (acme.rt.v1.admin.RtAdmin): where a service lives does
            # not change which entry applies to its methods
            fut_sub = [ex.submit(_resolve_chunk, [c['cfg'] for c in ch], rules, True) for ch in chunks]
            # 2b. table configs: full generation
            roots = {cid: os.path.join(work, f't{cid}', 'out') for cid in cids}
            for cid in cids:
                os.makedirs(os.path.dirname(roots[cid]), exist_ok=True)
            fut_tab = {cid: ex.submit(_generate_table, (table[cid]['cfg'], roots[cid], rules)) for cid in cids}
            gens = {cid: f.result() for cid, f in fut_tab.items()}
            resolved_obs = []
            for f in fut_res:
                resolved_obs.extend(f.result())
            sub_obs = []
            for f in fut_sub:
                sub_obs.extend(f.result())
        lap(f'generation layer: {len(enum_cases)} configs through API.build, {len(cids)} table configs generated')
        for lay, (c, o) in ([('', x) for x in list(zip(enum_cases, resolved_obs)) + [(table[cid], gens[cid]) for cid in cids]]
                            + [('sub-package:', x) for x in zip(enum_cases, sub_obs)]):
            key = lay + ('table%d:' % c['cid'] if c['cid'] else '') + cfg_key(c['cfg'])
            pred = predicted_methods(c, sels)
            named = set((n['svc'], n['meth']) for e in c['cfg'] for n in e['names'])
            chk.case('resolve:' + key, nontrivial=any((p['svc'], p['meth']) in named for p in pred))
            if o['error']:
                chk.violation(f'resolve:{key}', f"generation failed: {o['error']}", dict(case=c))
                continue
            # the order in which the generator walks the methods is not part of the property: declaration order
            order = {(p['svc'], p['meth']): i for i, p in enumerate(pred)}
            o['methods'].sort(key=lambda m: order.get((m['svc'], m['meth']), len(order)))
            if o['methods'] != pred:
                bad = [(p, m) for p, m in zip(pred, o['methods']) if p != m]
                msg = (f'{len(o["methods"])} Method events for {len(pred)} methods' if len(o['methods']) != len(pred) else
                       '; '.join(f"{p['svc']}/{p['meth']}: schema has timeout={m['timeout']} retry={m['policy']}, "
                                 f"the config entry gives timeout={p['timeout']} retry={p['policy']}" for p, m in bad[:3]))
                chk.violation(f'resolve:{key}', msg, dict(case=c, observed=o['methods'], service_config=service_config(c['cfg'])))
            if lay:
                continue            # (the trace of the same config in the flat layout is validated; this pass compares only)
            traces.append(('resolve:' + key, dict(cid=c['cid'], cfg=c['cfg'] if c['cid'] == 0 else [], run=False, script=[],
                                                  events=load_events(o['methods'])), dict(case=c)))
        for cid in cids:
            if gens[cid]['error']:
                raise core.MachineryError(f"generation of table config {cid} failed: {gens[cid]['error']}")
        # 3. run-time layer: drive the emitted clients -----------------------------------------------------------------
        api = carrier_api(rules)
        jobs = []
        by_id = {}
        for i, c in enumerate(run_cases):
            c['id'] = i
            by_id[i] = c
        for cid in cids:
            mine = [c for c in run_cases if c['cid'] == cid]
            nsh = max(1, min(WORKERS, len(mine) // 400))
            for s in range(nsh):
                shard = [dict(id=c['id'], sel=c['sel'], ovr=c['ovr'], script=c['script'], jit=c['jit'], transport=c['transport'])
                         for c in mine[s::nsh]]
                jobs.append((roots[cid], dict(api=api, module=MODULE, unit=U, reply=f'{PKG}.Item', request={'name': 'items/1'},
                                              services={k: {'class': v['name'], 'snake': v['snake']} for k, v in SERVICES.items()},
                                              methods=SNAKE, cases=shard, modes=['sync', 'async', 'rest'],
                                              streams=dict([(x['meth'], 'cs') for x in rules['cstream']] +
                                                           [(x['meth'], 'bidi') for x in rules['bidi']]))))
        runs = []
        with ProcessPoolExecutor(WORKERS) as ex:
            for ok, out, err in ex.map(_drive, jobs):
                if not ok:
                    raise core.MachineryError('retry driver failed:\n' + err)
                runs.extend(out['traces'])
        lap(f'{len(runs)} calls driven')
        # 4. spec -> code comparison of the calls ------------------------------------------------------------------------
        payload0 = jobs[0][1] if jobs else None
        bad = []
        for tr in runs:
            c = by_id[tr['id']]
            key = run_key(c, tr['mode'])
            exp = c['expect']
            chk.case(key, nontrivial=exp['attempts'] > 1 or exp['rpcTimeouts'] != [NO] or exp['outcome'] != 'ok')
            d = diff_run(exp, observed(tr))
            if d:
                bad.append((key, c, tr, d))
            traces.append((key, dict(cid=c['cid'], cfg=[], run=True, script=c['script'], events=tr['events']),
                           dict(case=c, trace=tr)))
        # a mismatch is re-run once in isolation (fresh interpreter) before it is reported (DESIGN 7.1)
        for key, c, tr, d in bad[:25]:
            pl = dict(payload0, cases=[dict(id=c['id'], sel=c['sel'], ovr=c['ovr'], script=c['script'], jit=c['jit'],
                                            transport=c['transport'])],
                      modes=[tr['mode']])
            ok, out, err = gen.run_driver('harness.drivers.retry', roots[c['cid']], pl, timeout=300)
            if not ok or out['traces'][0]['events'] != tr['events']:
                raise core.MachineryError(f'mismatch for {key} did not reproduce in isolation: first {tr["events"]}, '
                                          f'then {out["traces"][0]["events"] if ok else err}')
        for n, (key, c, tr, d) in enumerate(bad):
            chk.violation(key, '; '.join(d) + (f" (raised {tr['error']})" if tr.get('error') else ''),
                          dict(case=c, config=table[c['cid']]['cfg'], trace=tr) if n < 200 else dict(case_id=key))
    # 5. code -> spec: batched trace validation ----------------------------------------------------------------------------
    rnd.shuffle(traces)          # balance the batches (deterministic given the seed)
    nb = max(1, -(-len(traces) // 10000)) if len(traces) > 60000 else max(1, min(6, len(traces) // 1500))
    batches = [traces[i::nb] for i in range(nb)]
    with ThreadPoolExecutor(min(nb, 6)) as ex:
        try:
            vals = list(ex.map(_validate, [[t[1] for t in b] for b in batches]))
        except RuntimeError as e:
            raise core.MachineryError(str(e))
    lap(f'{len(traces)} traces validated in {nb} batches')
    for k, f in checks.items():
        chk.add_tlc(f.result(), f'Retry model check ({k}: invariants' + (' + liveness)' if k == 'small' else ')'))
    lap('model checking joined')
    nacc = nrej = nruns = 0
    for b, (accepted, rejected, rs) in zip(batches, vals):
        for r3 in rs:
            chk.states += r3.distinct
            chk.transitions += r3.generated
        nruns += len(rs)
        nacc += accepted
        chk.traces += accepted
        for idx, t, info in rejected:
            nrej += 1
            key, _, ctx = b[idx]
            chk.violation('trace:' + key, f'RetryTrace rejected the recorded behaviour: {info}',
                          dict(tla_trace=t, info=info, **ctx))
        if len(rejected) >= 10:
            chk.extra['trace_validation_truncated'] = 'a batch stopped after 10 rejections; the remaining traces of it were not judged'

    chk.tlc_runs.append(dict(label='RetryTrace batches', runs=nruns, accepted=nacc, rejected=nrej))
    chk.rule = ('generation cases = abstract service configs enumerated by TLC (Retry.emit.{sel_small,sel_full,sel3,values,table}.cfg: '
                '1-3 entries, 1-2 names per entry incl. service-level names, other service, suffix-related method names; every '
                'duration spelling, multiplier, every canonical code alone and in pairs), non-trivial = names a method of the API; '
                'call cases = table config x method x override x fault script over {2 retryable, 1 non-retryable} (length <= MaxLen) '
                'x jitter {0,1/2,1} x {grpc sync, grpc asyncio, rest (fault codes in RestExact; http rule with / without body)}; methods unary, client-streaming, bidi; non-trivial = more than one attempt, a deadline, or an error outcome; '
                'distinct by the full input')
    for t in [t for t in traces if t[1]['run']][:3] + [t for t in traces if not t[1]['run']][:2]:
        chk.sample(dict(key=t[0], trace=t[1]))
    chk.assumptions += [
        'unary methods over grpc / grpc_asyncio (loopback server) and rest (requests.Session.request replaced by a scripted recorder '
        'below AuthorizedSession; rest_asyncio not driven); api-core under virtual time (harness/vtime.py)',
        'AsyncStreamNoRetry: over grpc_asyncio a client-streaming / bidi call is handed back before a status exists and is never '
        'retried (modelled and named in Retry.tla, exempted in Inv_Surface; reported as a divergence, not asserted)',
        'RestStatusMapping: REST fault scripts use only the codes whose HTTP status api-core maps back to the exception class of the '
        'code (CANCELLED NOT_FOUND UNIMPLEMENTED INTERNAL UNAVAILABLE); for the other 11 codes the REST error is a parent class '
        '(e.g. 504 -> GatewayTimeout) that the rendered predicate does not list',
        'run-time durations are multiples of 1/4096 s so that api-core float arithmetic is exact (boundary now+sleep=deadline included)',
        'named deviations modelled: ApiCoreDefault (zero/absent backoff values -> 1 s / 60 s / 2), MaxAttemptsIgnored, ApiCoreFloor '
        '(remaining budget < 1 s -> whole timeout), an explicit timeout= keeps the retry deadline of the retry object',
        'a service-level name (no method) names no method; maxAttempts is not compared',
    ]
    parts = {}
    for k, _, _ in chk.violations:
        part = 'trace' if k.startswith('trace:') else 'spec->code'
        layer = 'generation' if 'resolve:' in k[:14] else 'call'
        parts[f'{part}/{layer}'] = parts.get(f'{part}/{layer}', 0) + 1
    chk.extra['violations_by_part'] = parts
    chk.extra['configs_resolved'] = len(enum_cases) + len(cids)
    chk.extra['table_configs'] = cids
    chk.extra['calls'] = len(runs)
    chk.extra['bounds'] = dict(run_cfgs=runcfgs, scopes=scopes)


main.level = 'model_checking'
