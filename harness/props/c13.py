"""C13 - the unit-test suite emitted with a library passes against that library.

spec      : spec/Features.tla: the input space (builder over features, WF), the predicate Conventional (DESIGN 8) and the
            inventory RequiredTests the emitted suite must contain (so a suite that passes because tests vanished is rejected).
binding   : every conventional case emitted by TLC is generated for real and its emitted tests/unit suite is run (junit);
            the observation (classified tests, failures, errors) is validated by spec/FeaturesTrace.tla (SuiteOk).
level     : exploration - model-generated inputs, the emitted tests themselves are the oracle for behaviour.
"""
import random

from .. import core, tlc, featrun


def shrink(case, obs):
    """drop features while the same test keeps failing; returns the minimal failing feature list."""
    cur = list(case['features'])
    first = (obs.get('failed_names') or [None])[0]
    for f in list(cur):
        trial = [x for x in cur if x != f]
        c2 = dict(case, features=trial)
        # keep the spec-derived fields consistent enough for grouping; rpcs only shrink
        o2 = featrun.run_tests(c2)
        if o2.get('error') or o2['failures'] or o2['errors']:
            if first is None or first in o2.get('failed_names', []) or o2.get('error'):
                cur = trial
    return cur


def main(chk, args):
    quick = chk.tier == 'quick'
    cases = featrun.get_cases(chk, quick, chk.seed, n_pairs_quick=16, n_sim_quick=6, n_sim_thorough=150, only_conventional=True)
    rnd = random.Random(chk.seed)
    if quick:
        # singles that change the emitted tests most + the sampled pairs/simulated sets
        singles = [c for c in cases if len(c['features']) <= 1]
        others = [c for c in cases if len(c['features']) > 1]
        keep = {'o_rest', 'o_grpc_rest', 'o_mixins', 'o_ads', 'o_iam', 'm_lro', 'm_sstream', 'm_bidi', 'm_paged_map', 's_flatten', 'f_map',
                'f_oneof', 'r_resource', 'h_additional', 'f_reserved', 's_two_services', 's_required'}
        cases = [c for c in singles if not c['features'] or c['features'][0] in keep] + others
    elif len(cases) > 700:
        singles = [c for c in cases if len(c['features']) <= 1]
        others = [c for c in cases if len(c['features']) > 1]
        cases = singles + rnd.sample(others, 650)
    obs = featrun.run_tests_many(cases)
    traces = []
    keys = []
    for c, o in zip(cases, obs):
        k = featrun.key_of(c)
        chk.case(k, nontrivial=True)
        if o.get('error'):
            chk.violation(k, o['error'], dict(case=c))
            continue
        if not c['conventional']:
            # an admitted set outside the profile of Features.tla (see featrun.get_cases): the test INVENTORY of the specification does
            # not cover it; what counts is that no emitted test fails
            if o['failures'] or o['errors']:
                chk.violation('F{' + ','.join(sorted(c['features'])) + '}', f"emitted tests failed: {o['failed_names'][:5]} "
                              f"(failures={o['failures']}, errors={o['errors']})", dict(case=c, failed=o['failed_names'][:30]))
            continue
        traces.append(dict(features=c['features'], tests=o['tests'], failures=o['failures'], errors=o['errors']))
        keys.append((k, c, o))
    accepted, rejected, runs = tlc.validate_all('FeaturesTrace', 'FeaturesTrace.cfg', traces, timeout=900, max_rejects=40)
    for r in runs:
        chk.states += r.distinct; chk.transitions += r.generated
    chk.tlc_runs.append(dict(label='FeaturesTrace batch', runs=len(runs), accepted=accepted, rejected=len(rejected)))
    chk.traces += accepted
    for idx, t, info in rejected:
        k, c, o = keys[idx]
        if o['failures'] or o['errors']:
            small = shrink(c, o) if len(c['features']) > 1 and len(rejected) <= 12 else c['features']
            key = 'F{' + ','.join(sorted(small)) + '}'
            chk.violation(key, f"emitted tests failed: {o['failed_names'][:5]} (failures={o['failures']}, errors={o['errors']}); "
                               f"shrunk from {k}", dict(case=c, shrunk=small, failed=o['failed_names'][:30]))
        else:
            want = {(x['rpc'], x['kind'], x['pager']) for x in t['tests']}
            chk.violation(k, f'emitted suite lacks tests the specification requires (inventory); observed groups: {sorted(want)[:12]}',
                          dict(case=c, tests=t['tests']))
    chk.extra['emitted_tests_run'] = sum(o.get('n_tests', 0) for o in obs)
    chk.rule = ('cases = conventional feature sets of Features.tla (singles, sampled pairs, -simulate sets; thorough: 650 pairs + '
                'all singles + simulated); each: generate, run emitted tests/unit, validate (no failure/error, inventory) by TLC')
    for c, o in list(zip(cases, obs))[:3]:
        chk.sample(dict(features=c['features'], n_tests=o.get('n_tests'), failures=o.get('failures'), errors=o.get('errors')))
    chk.assumptions += ['runs against the dependency versions installed in /venv', 'async REST cases depend on aiohttp/google.auth.aio as installed',
                        'the conventional profile and its exclusions X1-X4 are those of DESIGN.md section 8']


main.level = 'exploration'
