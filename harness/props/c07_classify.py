"""C07 part (a): which methods are paginated, and over which field (spec/Paging.tla).

Two levels of binding (DESIGN 6): the schema's own classification of EVERY shape is read from the `Method` hook event of a
single API.build run (no rendering) and validated by PagingTrace.tla; a seeded sample of shapes is generated and executed for
real: the emitted method returns a pager iff the specification says so and the pager iterates the predicted field."""
import os
import random

from .. import absapi, core, gen, tlc

PKG = 'acme.pc.v1'
TYPES = {'string': 'string', 'int32': 'int32', 'int64': 'int64', 'uint32': 'uint32', 'bytes': 'bytes', 'bool': 'bool',
         'Int32Value': 'google.protobuf.Int32Value', 'UInt32Value': 'google.protobuf.UInt32Value', 'Int64Value': 'google.protobuf.Int64Value'}


def shape_messages(i, s):
    rf = [dict(name='parent')]
    def fld(name, kind):
        if kind.startswith('opt_'):
            return dict(name=name, type=TYPES[kind[4:]], optional=True)
        return dict(name=name, type=TYPES[kind])
    if s['pt'] != 'absent':
        rf.append(fld('page_token', s['pt']))
    if s['ps'] != 'absent':
        rf.append(fld('page_size', s['ps']))
    if s['mr'] != 'absent':
        rf.append(fld('max_results', s['mr']))
    of = [dict(name='total', type='int32')]
    for f in s['layout']:
        k = f['kind']
        if k == 'rep_msg':
            of.append(dict(name=f['name'], type='Item', repeated=True))
        elif k == 'rep_scalar':
            of.append(dict(name=f['name'], repeated=True))
        elif k == 'map':
            of.append(dict(name=f['name'], type='map:string,Item'))
        elif k == 'single_msg':
            of.append(dict(name=f['name'], type='Item'))
        elif k == 'rep_other_file':
            of.append(dict(name=f['name'], type='Other', repeated=True))
    if s['npt'] != 'absent':
        of.append(dict(name='next_page_token', type=TYPES[s['npt']]))
    return [dict(name=f'Req{i}', fields=rf), dict(name=f'Resp{i}', fields=of)]


def build_api(shapes):
    msgs = [dict(name='Item', fields=[dict(name='id', type='int32')])]
    methods = []
    for i, s in enumerate(shapes):
        msgs += shape_messages(i, s)
        methods.append(dict(name=f'List{i}', **{'in': f'Req{i}', 'out': f'Resp{i}'}))
    other = dict(name='acme/pc/v1/other.proto', package=PKG, messages=[dict(name='Other', fields=[dict(name='id', type='int32')])])
    main = dict(name='acme/pc/v1/pc.proto', package=PKG, messages=msgs, services=[dict(name='Pc', methods=methods)])
    return dict(files=[other, main])


def _schema_classification(shapes):
    """worker: one API.build with hooks on -> paged_field per method."""
    import warnings
    warnings.simplefilter('ignore')
    gen._trace_path = None
    gen.enable_trace()
    from gapic.schema import api as gapi
    from gapic.utils import Options
    req = absapi.build_request(build_api(shapes), '')
    gen.read_trace()
    gapi.API.build(req.proto_file, opts=Options.build(''), package=PKG)
    ev = [e for e in gen.read_trace() if e['ev'] == 'Method']
    return {e['name']: e['paged_field'] for e in ev}


def _real_sample(args):
    shapes, cases = args
    api = build_api(shapes)
    with gen.scratch() as work:
        req, res = gen.generate_api(api, dict(transport=['grpc'], snippets=False), work)
        root = gen.materialise(res, os.path.join(work, 'out'))
        ok, out, err = gen.run_driver('harness.drivers.paging_sample', root, dict(api=api, module='acme.pc_v1', n=len(shapes), pkg=PKG,
                                                                                 expect=[c['paged_field'] for c in cases]), timeout=600)
        if not ok:
            raise core.MachineryError('paging sample driver failed:\n' + err)
        return out['obs']


def run(chk, rnd):
    from concurrent.futures import ProcessPoolExecutor
    r = tlc.run('Paging', 'Paging.cfg', deadlock=False)
    chk.add_tlc(r, 'Paging model check')
    for m in ('string_page_size', 'last_repeated'):
        rm = tlc.run('Paging', f'CONSTANT Mutant = "{m}"\nSPECIFICATION Spec\nINVARIANT Inv_ExactlyWhen\nINVARIANT Inv_FirstRepeated\n', deadlock=False)
        if rm.ok:
            raise core.MachineryError(f'Paging mutant {m} not rejected')
    cases, r2 = tlc.emit_cases('Paging', 'Paging.emit.cfg', deadlock=False)
    chk.add_tlc(r2, 'Paging case emission')
    shapes = [c['shape'] for c in cases]
    chunks = [list(range(i, min(i + 450, len(shapes)))) for i in range(0, len(shapes), 450)]
    with ProcessPoolExecutor(12) as ex:
        outs = list(ex.map(_schema_classification, [[shapes[i] for i in ch] for ch in chunks]))
    traces = []
    for ch, got in zip(chunks, outs):
        for j, i in enumerate(ch):
            pf = got.get(f'List{j}')
            c = cases[i]
            s = c['shape']
            k = f"classify:pt={s['pt']},ps={s['ps']},mr={s['mr']},npt={s['npt']},layout={'+'.join(f['kind'] for f in s['layout']) or '-'}"
            chk.case(k, nontrivial=True)
            if (pf or '') != c['paged_field']:
                chk.violation(k, f"schema classifies the method as {'paged over ' + pf if pf else 'not paged'}; the specification says "
                                 f"{'paged over ' + c['paged_field'] if c['paged_field'] else 'not paged'}", dict(case=c, got=pf))
            traces.append((k, dict(shape=s, paged_field=pf or '')))
    accepted, rejected, runs = tlc.validate_all('PagingTrace', 'PagingTrace.cfg', [t for _, t in traces], timeout=900, max_rejects=40)
    for r3 in runs:
        chk.states += r3.distinct; chk.transitions += r3.generated
    chk.tlc_runs.append(dict(label='PagingTrace batch', runs=len(runs), accepted=accepted, rejected=len(rejected)))
    chk.traces += accepted
    for idx, t, info in rejected:
        chk.violation('trace:' + traces[idx][0], f'PagingTrace rejected the schema classification {t}: {info}')
    # real sample
    n = 40 if chk.tier == 'quick' else 240
    pick = rnd.sample(range(len(cases)), n)
    groups = [pick[i:i + 40] for i in range(0, n, 40)]
    with ProcessPoolExecutor(6) as ex:
        obs = list(ex.map(_real_sample, [([shapes[i] for i in g], [cases[i] for i in g]) for g in groups]))
    for g, ob in zip(groups, obs):
        for j, i in enumerate(g):
            c = cases[i]; o = ob[j]; s = c['shape']
            k = f"real:pt={s['pt']},ps={s['ps']},mr={s['mr']},npt={s['npt']},layout={'+'.join(f['kind'] for f in s['layout']) or '-'}"
            chk.case(k, nontrivial=True)
            if o.get('problem'):
                chk.violation(k, o['problem'], dict(case=c, obs=o))
    chk.extra['paging_shapes'] = len(cases)
