"""C02 - generated message and enum classes are wire-compatible with the input descriptors.

spec      : spec/Types.tla.  (a) builder actions choose a message shape (field kinds x cardinalities x reserved names x
            reference targets x nesting context), `Decl` says what the emitted class must declare; (b) an abstract
            valuation machine: ops on the generated class -> Encode -> DecodeByInput and EncodeByInput -> DecodeGen are the
            identity, presence / oneof / map semantics, JSON keys.  Spec mutants (Mutant constant) must be rejected.
spec->code: TLC emits cases (shape + script + predicted declaration, wire valuation, wire numbers, JSON keys; enum member
            sets; module manifests).  The shapes are packed into a few generated APIs (two target files + a synthetic
            dependency package), the emitted `types` modules are imported in a fresh interpreter (drivers/types.py) and
            the projection of the runtime descriptors / of the executed round trips is compared with the predictions.
code->spec: for EVERY message / enum / types module of the generated packages the driver records declare / op / encode /
            decode / json events (TLC-chosen scripts plus seeded random scripts, also on two large messages); the traces
            are validated by spec/TypesTrace.tla, every invariant of Types being evaluated after every recorded step.
"""
import json
import os
import random
import re
from concurrent.futures import ProcessPoolExecutor, ThreadPoolExecutor

from .. import core, gen, tlc, pipeline

PKG = 'acme.ty.v1'
MODULE = 'acme.ty_v1'
PDIR = 'acme/ty/v1'
SCALARS = ['double', 'float', 'int64', 'uint64', 'int32', 'fixed64', 'fixed32', 'bool', 'string', 'bytes', 'uint32',
           'sfixed32', 'sfixed64', 'sint32', 'sint64']
KEYS = [k for k in SCALARS if k not in ('double', 'float', 'bytes')]
MUTANTS = ['double_underscore', 'never_suffix', 'suffix_json', 'drop_optional', 'drop_oneof', 'shift_number', 'swap_map',
           'enum_as_message', 'flatten_nested', 'enum_dense', 'drop_manifest_entry']
BEHAVIOURAL = {'drop_optional', 'drop_oneof', 'shift_number', 'swap_map', 'enum_as_message'}
RISKY_MSG = {'shadow': 'shadowed-nested-ref/message', 'eshadow': 'shadowed-nested-ref/enum'}


def reserved_names():
    from gapic.utils.reserved_names import RESERVED_NAMES
    return sorted(RESERVED_NAMES)


def cfg_text(name, mutant=None, **consts):
    """checked-in cfg with the Reserved constant replaced by the generator's list as it is NOW."""
    with open(os.path.join(tlc.SPEC, name)) as f:
        text = f.read()
    res = '{' + ', '.join(json.dumps(x) for x in reserved_names()) + '}'
    text, n = re.subn(r'Reserved = \{[^}]*\}', lambda m: 'Reserved = ' + res, text)
    if n != 1:
        raise core.MachineryError(f'{name}: no Reserved constant')
    if mutant:
        text = text.replace('Mutant = "none"', f'Mutant = "{mutant}"')
    for k, v in consts.items():
        text = re.sub(rf'{k} = \S+', f'{k} = {v}', text)
    return text


# ---- abstract shapes -> abstract API ----------------------------------------------------------------------
def snake(words):
    return '_'.join(w['l'] for w in words)


def W(name):
    return [dict(l=w, c=w[:1].upper() + w[1:]) for w in name.split('_')]


def fclass(f, reserved=()):
    """class of a field (for stable violation keys)."""
    s = f"{f['kind']}/{f['card']}"
    if f['card'] == 'map':
        s += f"<{f['key']}>"
    if f.get('reftok') or f.get('ref'):
        s += '@' + (f.get('reftok') or f['ref'])
    if f.get('group'):
        s += '/oneof'
    if snake(f['name']) in reserved:
        s += '/reserved'
    return s


def mk_enum(name, prefix):
    return dict(name=name, values=[[f'{prefix}_UNSPECIFIED', 0], [f'{prefix}_ONE', 1], [f'{prefix}_FIVE', 5]])


TAG = dict(name='tag', type='int32', number=1)


def kid_names(file):
    """names of the subject's own nested message / enum (tokens Kid / KE of Types.tla); an EARLIER top-level message /
    enum of the same file carries the same simple name (reference targets twin / etwin)."""
    return ('Kid', 'KE') if file == 'a' else ('KidB', 'KEB')


def targets(file, path, ctx):
    F = file.upper()
    KID, KE = kid_names(file)
    full = PKG + '.' + '.'.join(path)
    t = dict(self=full, peer=f'{PKG}.{path[0]}Peer', before=f'{PKG}.Before{F}', after=f'{PKG}.After{F}',
             cousin=f'{PKG}.Before{F}.Inner', dep='other.dep.v1.Dep', depnested='other.dep.v1.Dep.Inner',
             wkt='google.protobuf.Duration', kid=full + '.' + KID, twin=f'{PKG}.{KID}', etwin=f'{PKG}.{KE}',
             etop=f'{PKG}.Color{F}',
             ecousin=f'{PKG}.Before{F}.Inner.Deep', edep='other.dep.v1.Level', edepnested='other.dep.v1.Dep.Mode',
             ekid=full + '.' + KE)
    if len(path) >= 2:
        parent = PKG + '.' + '.'.join(path[:-1])
        t.update(parent=parent, sibling=parent + '.Sib', esibling=parent + '.SE',
                 shadow=f'{PKG}.{path[-1]}.{KID}', eshadow=f'{PKG}.{path[-1]}.{KE}')
    if len(path) >= 3:
        t['root'] = PKG + '.' + path[0]
    if file == 'b':
        t.update(xfile=f'{PKG}.BeforeA', xnested=f'{PKG}.BeforeA.Inner', exfile=f'{PKG}.ColorA',
                 exnested=f'{PKG}.BeforeA.Inner.Deep')
    return t


def conc_field(f, tg):
    """abstract field record (Types.tla) -> absapi FIELD."""
    if f['kind'] == 'message':
        t = '.' + tg[f['ref']]
    elif f['kind'] == 'enum':
        t = 'enum:.' + tg[f['ref']]
    else:
        t = f['kind']
    d = dict(name=snake(f['name']), number=f['number'])
    if d['name'] != d['name'].lower():
        # json_name is optional in a descriptor (protoc fills it in, other producers need not): a name with capitals and no
        # json_name must still get the standard mapping (userID -> userID), which lower-casing helpers get wrong
        d['json_name'] = ''
    if f['card'] == 'map':
        d['type'] = f"map:{f['key']},{t}"
    else:
        d['type'] = t
        if f['card'] == 'repeated':
            d['repeated'] = True
        if f['card'] == 'optional':
            d['optional'] = True
        if f['group']:
            d['oneof'] = f['group']
    return d


def conc_message(i, sub):
    """message subject number i -> (top-level absapi messages, info)."""
    ctx = sub['ctx']
    file, d = ctx['file'], ctx['depth']
    X = 'N' if file == 'a' else 'M'
    path = [f'C{i}'] + [f'{X}{j}' for j in range(2, d + 1)]
    tg = targets(file, path, ctx)
    KID, KE = kid_names(file)
    full = tg['self']
    node = dict(name=path[-1], fields=[conc_field(f, tg) for f in sub['fields']], messages=[], enums=[])
    if ctx['kids']:
        node['messages'].append(dict(name=KID, fields=[TAG, dict(name='up', type='.' + full, number=2)]))
        node['enums'].append(mk_enum(KE, 'KE'))
    for level in range(d - 1, 0, -1):
        wrap = dict(name=path[level - 1], messages=[node], enums=[],
                    fields=[TAG, dict(name='child', type='.' + PKG + '.' + '.'.join(path[:level + 1]), number=2)])
        if level == d - 1:
            sib = dict(name='Sib', fields=[TAG])
            wrap['messages'] = [sib, node] if i % 2 == 0 else [node, sib]
            wrap['enums'] = [mk_enum('SE', 'SE')]
        node = wrap
    tops = [node]
    if any(f['ref'] == 'peer' for f in sub['fields']):
        tops.append(dict(name=f'C{i}Peer', fields=[TAG, dict(name='back', type='.' + full, number=2)]))
    shape = dict(path=path, msgs=[KID] if ctx['kids'] else [], enums=[KE] if ctx['kids'] else [],
                 fields=[dict(name=f['name'], number=f['number'], kind=f['kind'], card=f['card'], group=f['group'],
                              ref=tg[f['ref']] if f['ref'] else '', key=f['key']) for f in sub['fields']])
    return tops, dict(full=full, file=file, tg=tg, shape=shape)


def conc_enum(i, sub):
    (what, top), inf = _conc_enum(i, sub)
    e = top if what == 'enum' else top['enums'][0]
    if len({n for _, n in e['values']}) < len(e['values']):
        e['allow_alias'] = True          # two names for one number
    return (what, top), inf


def _conc_enum(i, sub):
    file = 'ab'[(i // 2) % 2]
    if i % 2 == 0:
        name, prefix = f'E{i}', f'E{i}_'
        top = ('enum', dict(name=name, values=[[prefix + v['name'], v['number']] for v in sub['evals']]))
        full = f'{PKG}.{name}'
    else:
        prefix = ''
        top = ('message', dict(name=f'H{i}', fields=[dict(name='e', type=f'enum:.{PKG}.H{i}.E', number=1)],
                               enums=[dict(name='E', values=[[v['name'], v['number']] for v in sub['evals']])]))
        full = f'{PKG}.H{i}.E'
    return top, dict(full=full, file=file, prefix=prefix)


def support(file):
    F = file.upper()
    X = 'N' if file == 'a' else 'M'
    before = dict(name=f'Before{F}', fields=[TAG, dict(name='note', number=2)],
                  messages=[dict(name='Inner', fields=[TAG], enums=[mk_enum('Deep', 'DEEP')])])
    # top-level messages named like the nested subjects (N2..N4 / M2..M4), with children named like the subject's own
    # children: the "shadow" reference targets
    KID, KE = kid_names(file)
    hosts = [dict(name=f'{X}{j}', fields=[TAG], messages=[dict(name=KID, fields=[TAG])], enums=[mk_enum(KE, 'KE')])
             for j in (2, 3, 4)]
    # the twins: top-level, declared before every subject, named like the subjects' own nested children
    twin = dict(name=KID, fields=[TAG, dict(name='top_level_only', number=7)])
    return ([mk_enum(f'Color{F}', f'COLOR_{F}'), mk_enum(KE, f'TOP_{KE}')], [before, twin] + hosts,
            [dict(name=f'After{F}', fields=[TAG])])


def dep_file():
    return dict(name='other/dep/v1/dep.proto', package='other.dep.v1', target=False, imports=[], std_deps=[],
                enums=[mk_enum('Level', 'LEVEL')],
                messages=[dict(name='Dep', fields=[TAG], messages=[dict(name='Inner', fields=[TAG])],
                               enums=[mk_enum('Mode', 'MODE')])])


def build_api(subjects):
    """subjects: list of dicts with 'sid' (global number) and 'kind'.  Returns (api, info by sid)."""
    info = {}
    files = {}
    for file in 'ab':
        enums, first, last = support(file)
        files[file] = dict(enums=enums, first=first, mid=[], last=last)
    extras = []
    for s in subjects:
        i = s['sid']
        if s['kind'] == 'message':
            tops, inf = conc_message(i, s)
            files[inf['file']]['mid'].extend(tops)
        elif s['kind'] == 'enum':
            (what, top), inf = conc_enum(i, s)
            (files[inf['file']]['enums'] if what == 'enum' else files[inf['file']]['mid']).append(top)
        else:
            names = {}
            fd = dict(name=f'{PDIR}/extra{i}.proto', package=PKG, messages=[], enums=[])
            for t in s['tops']:
                names[t] = f'{t}{i}'
                if t == 'Beta':
                    fd['enums'].append(mk_enum(names[t], f'BETA{i}'))
                elif t == 'Gamma':
                    fd['messages'].append(dict(name=names[t], fields=[TAG], messages=[dict(name='Inner', fields=[TAG])]))
                else:
                    fd['messages'].append(dict(name=names[t], fields=[TAG]))
            extras.append(fd)
            inf = dict(full=fd['name'], names=names)
        info[i] = inf
    fa = dict(name=f'{PDIR}/common.proto', package=PKG, imports=['other/dep/v1/dep.proto'], enums=files['a']['enums'],
              messages=files['a']['first'] + files['a']['mid'] + files['a']['last'])
    fb = dict(name=f'{PDIR}/main.proto', package=PKG, imports=['other/dep/v1/dep.proto', f'{PDIR}/common.proto'],
              enums=files['b']['enums'],
              messages=files['b']['first'] + files['b']['mid'] + files['b']['last'] + [dict(name='Req', fields=[dict(name='name', number=1)])],
              services=[dict(name='Ty', methods=[dict(name='Do', **{'in': 'Req', 'out': 'Req'})])])
    for e in extras:
        e['imports'] = []
    return dict(files=[dep_file(), fa, fb] + extras), info


# ---- large hand-laid shapes (code -> spec only: declarations + seeded random valuations) ------------------
def big_subject(depth, file, seed_names, light=False):
    ctx = dict(depth=depth, file=file, kids=True)
    fs, n = [], [0]

    def add(name, kind, card='single', ref='', key='', group='', number=None):
        n[0] += 1
        fs.append(dict(name=W(name), number=number or n[0], kind=kind, card=card, group=group, ref=ref, key=key))
    for j, k in enumerate(SCALARS):
        add('s_' + k, k)
        if not light or j % 3 == 0:
            add('r_' + k, k, 'repeated')
        if not light or j % 3 == 1:
            add('o_' + k, k, 'optional')
    mrefs = ['self', 'peer', 'before', 'after', 'kid', 'twin', 'cousin', 'dep', 'depnested', 'wkt']
    erefs = ['etop', 'ekid', 'etwin', 'ecousin', 'edep', 'edepnested']
    if depth >= 2:
        mrefs += ['parent', 'sibling']; erefs += ['esibling']
    if depth >= 3:
        mrefs += ['root']
    if file == 'b':
        mrefs += ['xfile', 'xnested']; erefs += ['exfile', 'exnested']
    vals = [('string', ''), ('int32', ''), ('bytes', ''), ('double', ''), ('bool', '')] + [('message', r) for r in mrefs] + [('enum', r) for r in erefs]
    for j, k in enumerate(KEYS):
        for q in range(1 if light else 3):
            vk, vr = vals[(3 * j + q) % len(vals)]
            add(f'm_{k}_{q}', vk, 'map', vr, k)
    for j, r in enumerate(mrefs):
        add('msg_' + r, 'message', 'single', r)
        if not light or j % 2 == 0:
            add('rmsg_' + r, 'message', 'repeated', r)
        if not light or j % 2 == 1:
            add('omsg_' + r, 'message', 'optional', r)
    for j, r in enumerate(erefs):
        add('en_' + r, 'enum', 'single', r)
        if not light or j % 2 == 0:
            add('ren_' + r, 'enum', 'repeated', r)
        if not light or j % 2 == 1:
            add('oen_' + r, 'enum', 'optional', r)
    add('c_str', 'string', group='choice'); add('c_msg', 'message', ref='self', group='choice'); add('c_enum', 'enum', ref='etop', group='choice')
    add('c_int', 'sint64', group='choice'); add('c_bool', 'bool', group='choice')
    g2 = 'variant' if 'type' in seed_names else 'type'          # a oneof may be named like a reserved word
    add('t_bytes', 'bytes', group=g2); add('t_dep', 'message', ref='dep', group=g2)
    for w in seed_names:
        add(w, 'string')
    add('class', 'int32', 'optional'); add('from', 'message', 'single', 'before'); add('import', 'string', 'repeated')
    add('global', 'enum', 'map', 'etop', 'string'); add('in', 'bool', group='lone'); add('far', 'uint64', number=536870911)
    add('edge_a', 'fixed32', number=18999); add('edge_b', 'sfixed64', number=20000); add('two_byte_tag', 'string', number=2048)
    return dict(kind='message', ctx=ctx, fields=fs, scripts=[], big=True)


def twin_corner(depth, file):
    """a message with a nested message / enum named like an earlier top-level message / enum of its file: direct, repeated,
    optional, oneof and map-value fields typed by the TOP-LEVEL one and, for contrast, fields typed by the nested one."""
    fs = []

    def add(name, kind, card, ref, key='', group=''):
        fs.append(dict(name=W(name), number=len(fs) + 1, kind=kind, card=card, group=group, ref=ref, key=key))
    add('last_error', 'message', 'single', 'twin'); add('errors', 'message', 'repeated', 'twin')
    add('by', 'message', 'map', 'twin', 'string'); add('maybe', 'message', 'optional', 'twin')
    add('either', 'message', 'single', 'twin', group='choice'); add('own', 'message', 'single', 'kid')
    add('owns', 'message', 'repeated', 'kid'); add('own_by', 'message', 'map', 'kid', 'int32')
    add('level', 'enum', 'single', 'etwin'); add('levels', 'enum', 'repeated', 'etwin')
    add('level_by', 'enum', 'map', 'etwin', 'bool'); add('own_level', 'enum', 'single', 'ekid')
    return dict(kind='message', ctx=dict(depth=depth, file=file, kids=True), fields=fs, scripts=[], big=True, label='twin-corner')


# ---- running packs ------------------------------------------------------------------------------------------
ADS_MODULE = 'acme.ty.v1'      # old naming of the alternative (Ads) template set


class _Prefixed:
    """chk with every case / violation key prefixed (results of the Ads template set are keyed 'ads:...')."""
    def __init__(self, chk, pre):
        self.chk, self.pre = chk, pre

    def case(self, key=None, nontrivial=True):
        return self.chk.case(self.pre + key if isinstance(key, str) else key, nontrivial=nontrivial)

    def violation(self, key, summary, replay=None):
        return self.chk.violation(self.pre + key, ('[Ads templates] ' if self.pre else '') + summary, replay)


def _run_pack(args):
    subjects, seed, nrandom, rlen = args[:4]
    ads = len(args) > 4 and args[4]
    api, info = build_api(subjects)
    payload_subjects = []
    for s in subjects:
        if s['kind'] == 'message':
            big = s.get('big')
            payload_subjects.append(dict(id=s['sid'], full=info[s['sid']]['full'], scripts=[c['ops'] for c in s['scripts']],
                                         random=s.get('nrandom', nrandom), rlen=s.get('rlen', rlen)))
    with gen.scratch() as work:
        try:
            opts = dict(transport=['grpc'], snippets=False)
            if ads:
                opts.update(templates='ads-templates', old_naming=True)
            req, res = gen.generate_api(api, opts, work)
            if res.error:
                return dict(info=info, gen_error=scrub(res.error[-2000:]), ads=ads)
        except Exception as e:  # the generator itself failed on this input
            import traceback
            return dict(info=info, gen_error=scrub(traceback.format_exc()[-2000:]), ads=ads)
        root = gen.materialise(res, os.path.join(work, 'out'))
        for f in req.proto_file:
            if f.name.startswith('other/'):
                pipeline.write_pb2(f, root)
        ok, out, err = gen.run_driver('harness.drivers.types', root,
                                      dict(api=api, module=ADS_MODULE if ads else MODULE, pkg=PKG, subjects=payload_subjects, seed=seed),
                                      timeout=1700)
    if not ok:
        return dict(info=info, driver_error=scrub(err), ads=ads)
    if out.get('import_error'):
        out['import_error'] = scrub(out['import_error'])
    return dict(info=info, out=out, ads=ads)


def failure_of(r):
    if 'gen_error' in r:
        return 'generate', r['gen_error']
    if 'driver_error' in r:
        return 'driver', r['driver_error']
    if r['out'].get('import_error'):
        return 'import', r['out']['import_error']
    return None


def scrub(text):
    """error texts without the scratch directory names (replay files are deterministic)."""
    return re.sub(r'/tmp/[A-Za-z0-9_.-]+/', '<scratch>/', text)


def stable_name(full):
    """class name without the running numbers of the concretisation (violation keys are stable across seeds)."""
    n = full[len(PKG) + 1:] if full.startswith(PKG + '.') else full
    n = re.sub(r'\b([CEH])\d+', r'\1#', n)
    return re.sub(r'(extra|Alpha|Beta|Gamma)\d+', r'\1#', n)


def shape_class(s, reserved):
    if s.get('big'):
        return f"{s.get('label', 'big')}/d{s['ctx']['depth']}{s['ctx']['file']}"
    return '+'.join(sorted(set(fclass(dict(f, reftok=f['ref']), reserved) for f in s.get('fields', [])))) or s['kind']


def error_class(text):
    lines = [ln for ln in text.strip().splitlines() if ln.strip()]
    last = lines[-1] if lines else ''
    m = re.match(r'\s*([A-Za-z_.]+(?:Error|Exception))', last)
    return m.group(1) if m else 'Error'


def diff_decl(exp, obs):
    """names of the declaration attributes that differ, and the index of the first differing field."""
    diffs, first = [], None
    for k in ('path', 'msgs', 'enums'):
        if sorted(exp[k]) != sorted(obs[k]) if k != 'path' else exp[k] != obs[k]:
            diffs.append(k)
    if len(exp['fields']) != len(obs['fields']):
        diffs.append('field-count')
    for i, (a, b) in enumerate(zip(exp['fields'], obs['fields'])):
        for k in ('attr', 'json', 'number', 'kind', 'card', 'oneof', 'presence', 'ref', 'key'):
            if a[k] != b.get(k):
                diffs.append(k)
                if first is None:
                    first = i
    return sorted(set(diffs)), first


def main(chk, args):
    quick = chk.tier == 'quick'
    rnd = random.Random(chk.seed)
    reserved = set(reserved_names())
    pool = ThreadPoolExecutor(32)
    import time as _time
    _start = _time.time()
    timing = chk.extra.setdefault('timing_s', {})

    def lap(name):
        timing[name] = round(_time.time() - _start, 1)

    # 1. the specification satisfies the property within the bounds; the mutants are rejected -------------------
    jobs = [('Types model check (small)', pool.submit(tlc.run, 'Types', cfg_text('Types.small.cfg'), deadlock=False, timeout=1500,
                                                      workers=8 if quick else 4))]
    jobs.append(('Types liveness (1 field)', pool.submit(tlc.run, 'Types', cfg_text('Types.live.cfg'), deadlock=False,
                                                         timeout=1500, workers=4)))
    if not quick:
        jobs.append(('Types model check (mid: 2 fields, 2 ops, wider alphabets)',
                     pool.submit(tlc.run, 'Types', cfg_text('Types.full.cfg'), deadlock=False, timeout=2400, workers=6)))
        jobs.append(('Types model check (deep: small scope, 3 ops)',
                     pool.submit(tlc.run, 'Types', cfg_text('Types.deep.cfg'), deadlock=False, timeout=2400, workers=4)))
    muts = MUTANTS if not quick else [MUTANTS[(chk.seed + k) % len(MUTANTS)] for k in (0, 4, 8)]
    # the mutants that change what is on the wire must be caught by the behavioural invariants (round trip, presence,
    # oneof exclusivity), so the declaration-equality invariant is switched off for them
    mjobs = [(m, pool.submit(tlc.run, 'Types', cfg_text('Types.mutant.cfg', mutant=m).replace(
                  'INVARIANT Inv_SameFields\n', '' if m in BEHAVIOURAL else 'INVARIANT Inv_SameFields\n'),
              deadlock=False, timeout=900, workers=2)) for m in muts]
    # 2. cases -------------------------------------------------------------------------------------------------
    if quick:   # seeded sample of the one-field space (thorough: the whole space)
        e_one = pool.submit(tlc.emit_cases, 'Types', cfg_text('Types.emit.one.cfg'), deadlock=False, timeout=1500,
                            simulate=520, depth=20, seed=chk.seed + 1)
    else:
        e_one = pool.submit(tlc.emit_cases, 'Types', cfg_text('Types.emit.one.cfg'), deadlock=False, timeout=1500)
    e_sim = pool.submit(tlc.emit_cases, 'Types', cfg_text('Types.emit.sim.cfg'), deadlock=False, timeout=1500,
                        simulate=260 if quick else 6000, depth=40, seed=chk.seed)
    e_small = None if quick else pool.submit(tlc.emit_cases, 'Types', cfg_text('Types.emit.small.cfg'), deadlock=False, timeout=1500)

    cases_one, r1 = e_one.result()
    if quick:
        chk.tlc_runs.append(dict(label='Types -simulate case emission (one field)', **r1.summary()))
    else:
        chk.add_tlc(r1, 'Types case emission (one field, every kind x cardinality x key x target)')
    cases_sim, r2 = e_sim.result()
    chk.tlc_runs.append(dict(label='Types -simulate case emission (<= 4 fields, <= 4 ops)', **r2.summary()))
    if not cases_sim or not cases_one:
        raise core.MachineryError('no cases emitted:\n' + (r2.out[-1500:] if not cases_sim else r1.out[-1500:]))
    cases_small = []
    if e_small is not None:
        cases_small, r3 = e_small.result()
        chk.add_tlc(r3, 'Types case emission (small scope, two fields)')
    chk.exhaustive = not quick
    lap('cases emitted')

    # group the message cases by shape: one emitted class per shape, all its scripts run on it
    subjects, by_key = [], {}
    for c in cases_one + cases_small + cases_sim:
        if c['subject'] == 'message':
            k = json.dumps([c['ctx'], c['fields']], sort_keys=True)
            s = by_key.get(k)
            if s is None:
                s = by_key[k] = dict(kind='message', ctx=c['ctx'], fields=c['fields'], decl=c['decl'], scripts=[], seen=set())
                subjects.append(s)
            ok = json.dumps(c['ops'], sort_keys=True)
            if ok not in s['seen']:
                s['seen'].add(ok); s['scripts'].append(c)
        elif c['subject'] == 'enum':
            k = json.dumps(c['evals'], sort_keys=True)
            if k not in by_key:
                by_key[k] = dict(kind='enum', evals=c['evals'], genum=c['genum'])
                subjects.append(by_key[k])
        else:
            k = json.dumps(sorted(c['tops']))
            if k not in by_key:
                by_key[k] = dict(kind='file', tops=sorted(c['tops']), manifest=sorted(c['manifest']))
                subjects.append(by_key[k])
    # (generation time explodes for large messages that refer to their enclosing messages at depth >= 3, see report)
    bigs = [big_subject(1, 'b', ['type', 'format', 'any', 'max', 'self', 'next', 'list', 'display_name', 'ignore_unknown_fields', 'userID', 'x2FA'], light=quick),
            big_subject(2, 'a', ['all', 'license', 'object', 'hash', 'cls', 'zip', 'item_v2'], light=True)]
    if not quick:
        bigs.append(big_subject(1, 'a', ['range', 'open', 'dir', 'help', 'min'], light=False))
    for b in bigs:
        b['nrandom'] = 6 if quick else 40
        b['rlen'] = 30 if quick else 40
    corners = [twin_corner(1, 'a'), twin_corner(1, 'b'), twin_corner(2, 'b')]
    for b in corners:
        b['nrandom'], b['rlen'] = (4, 12) if quick else (20, 16)
    bigs += corners
    subjects += bigs
    for i, s in enumerate(subjects):
        s['sid'] = i + 1
        s.pop('seen', None)
    by_sid = {s['sid']: s for s in subjects}

    # risky classes (known to break the import of the whole module) are tried in isolation first
    def risk(s):
        if s['kind'] == 'message':
            for f in s['fields']:
                if f['ref'] in RISKY_MSG:
                    return RISKY_MSG[f['ref']] + ('/own-kid' if s['ctx']['kids'] else '/no-kid')
        if s['kind'] == 'enum' and any(v['number'] < 0 for v in s['evals']):
            return 'enum-negative-number'
        return None
    risky = {}
    normal = []
    for s in subjects:
        r = risk(s)
        (risky.setdefault(r, []) if r else normal).append(s)
    nrandom, rlen = (1, 8) if quick else (3, 12)
    npacks = 6 if quick else 14
    files = [s for s in normal if s['kind'] == 'file']
    rest = [s for s in normal if s['kind'] != 'file']
    rnd.shuffle(rest)
    packs = [rest[k::npacks] for k in range(npacks)]
    packs[0] = files + packs[0]
    packs = [[b] for b in bigs if len(b['fields']) > 20] + [[b for b in bigs if len(b['fields']) <= 20]] + \
            [[s for s in p if not s.get('big')] for p in packs]
    packs = [p for p in packs if p]
    probes = [(cls, ss[0]) for cls, ss in sorted(risky.items())]
    results = []
    with ProcessPoolExecutor(min(14, len(packs) + len(probes))) as ex:
        futs = [ex.submit(_run_pack, (p, chk.seed + k, nrandom, rlen)) for k, p in enumerate(packs)]
        # the same shapes through the alternative (Ads) template set, which has its own message / enum templates: the hand-laid
        # shapes and two of the packs in quick, everything in thorough
        ads_packs = packs if not quick else [p for p in packs if any(s.get('big') for s in p)] + [p for p in packs if not any(s.get('big') for s in p)][:2]
        afuts = [ex.submit(_run_pack, (p, chk.seed + k, nrandom, rlen, True)) for k, p in enumerate(ads_packs)]
        pfuts = [ex.submit(_run_pack, ([s], chk.seed, nrandom, rlen)) for _, s in probes]
        pres = [f.result() for f in pfuts]
        # a risky class whose representative imports fine is run in full
        late = []
        for (cls, s), r in zip(probes, pres):
            if failure_of(r):
                kind, text = failure_of(r)
                f0 = next((f for f in s.get('fields', []) if f['ref'] in RISKY_MSG), None)
                chk.case(f'{kind}:{cls}')
                chk.violation(f'{kind}:{cls}', f'{len(risky[cls])} shape(s) of class {cls}; representative '
                              f'{r["info"][s["sid"]]["full"]}: the emitted package cannot be imported: {text.strip().splitlines()[-1][:300]}',
                              dict(subject={k: v for k, v in s.items() if k != 'scripts'}, field=f0, error=text[-1500:],
                                   api=build_api([s])[0]))
                chk.extra.setdefault('isolated_classes', {})[cls] = len(risky[cls])
            else:
                results.append(([s], r))
                if len(risky[cls]) > 1:
                    late.append(ex.submit(_run_pack, (risky[cls][1:], chk.seed, nrandom, rlen)))
                    late[-1].subjects = risky[cls][1:]
        todo = [(p, f.result()) for p, f in zip(packs, futs)] + [(f.subjects, f.result()) for f in late]
        for p, f in zip(ads_packs, afuts):
            r = f.result()
            fl = failure_of(r)
            if fl and fl[0] == 'driver':
                raise core.MachineryError('types driver failed (Ads templates):\n' + fl[1])
            if fl:       # not bisected: the default template set bisects the same shapes
                chk.case(f'ads:{fl[0]}:pack')
                chk.violation(f'ads:{fl[0]}:{error_class(fl[1])}:pack', f'[Ads templates] a package of {len(p)} shapes fails ({fl[0]}): '
                              f'{fl[1].strip().splitlines()[-1][:300]}', dict(error=fl[1][-1500:], shapes=len(p)))
            else:
                results.append((p, r))
        chk.extra['ads_packs'] = len(ads_packs)
        # bisect packs that failed as a whole (down to single shapes for the first few, the rest are reported per pack)
        culprits = 0
        while todo:
            p, r = todo.pop()
            fl = failure_of(r)
            if not fl:
                results.append((p, r)); continue
            kind, text = fl
            if kind == 'driver':
                raise core.MachineryError('types driver failed:\n' + text)
            last = text.strip().splitlines()[-1][:300]
            if len(p) == 1:
                s = p[0]
                culprits += 1
                cl = shape_class(s, reserved)
                chk.case(f'{kind}:{cl}')
                chk.violation(f'{kind}:{error_class(text)}:{cl}', f'the package emitted for this single shape fails ({kind}): {last}',
                              dict(subject={k: v for k, v in s.items() if k != 'scripts'}, error=text[-1500:], api=build_api([s])[0]))
                continue
            if culprits >= 3:
                chk.case(f'{kind}:pack')
                chk.violation(f'{kind}:{error_class(text)}:pack', f'a package of {len(p)} shapes fails ({kind}), not bisected: {last}',
                              dict(error=text[-1500:], shapes=len(p)))
                continue
            h = len(p) // 2
            fa, fb = ex.submit(_run_pack, (p[:h], chk.seed, nrandom, rlen)), ex.submit(_run_pack, (p[h:], chk.seed, nrandom, rlen))
            ra, rb = fa.result(), fb.result()
            if failure_of(ra) and failure_of(rb) and len(p) > 8:
                # both halves fail: a defect that does not depend on one shape; follow one half only
                todo.append((p[:h], ra)); culprits_other = failure_of(rb)
                chk.violation(f'{culprits_other[0]}:{error_class(culprits_other[1])}:pack',
                              f'a package of {len(p) - h} shapes fails ({culprits_other[0]}), not bisected: '
                              f'{culprits_other[1].strip().splitlines()[-1][:300]}', dict(error=culprits_other[1][-1500:], shapes=len(p) - h))
            else:
                todo += [(p[:h], ra), (p[h:], rb)]

    lap('packs generated and driven')
    # 3. spec -> code comparison ----------------------------------------------------------------------------------
    all_traces = []
    storms = {}
    nclasses = 0
    for p, r in results:
        info, out = r['info'], r['out']
        C = _Prefixed(chk, 'ads:' if r.get('ads') else '')
        by_id = {}
        for t in out['traces']:
            if r.get('ads') and t['kind'] == 'file':
                continue          # what `types/__init__` re-exports is a matter of the template set's layout, not of C02
            all_traces.append(t)
            if t['kind'] == 'val':
                nclasses += 1
                if t['id'] != '':
                    by_id.setdefault(t['id'], {})[t['script']] = t
        by_full = {t['full']: t for t in out['traces'] if t['kind'] != 'val'}
        for s in p:
            inf = info[s['sid']]
            if s['kind'] == 'enum':
                t = by_full.get(inf['full'])
                exp = sorted([inf['prefix'] + n, k] for n, k in s['genum'])
                ev = t['events'][0] if t else dict(ev='missing')
                obs = sorted([m['name'], m['number']] for m in ev.get('members', []))
                key = 'enum:' + ','.join(str(k) for _, k in sorted(s['genum'], key=lambda x: x[1]))
                C.case(key, nontrivial=len(exp) > 1)
                if ev['ev'] != 'declare_enum' or obs != exp:
                    C.violation('enum-members:' + key, f'{inf["full"]}: emitted members {obs or ev} != predicted {exp}',
                                  dict(subject=s, observed=ev))
                continue
            if s['kind'] == 'file' and r.get('ads'):
                continue
            if s['kind'] == 'file':
                t = by_full.get(inf['full'])
                exp = sorted(inf['names'][x] for x in s['manifest'])
                ev = t['events'][0] if t else dict(ev='missing')
                key = 'manifest:' + '+'.join(s['tops'])
                C.case(key, nontrivial=True)
                if ev['ev'] != 'manifest' or ev['names'] != exp or ev['all'] != exp or not set(exp) <= set(ev['exported']):
                    C.violation(key, f'{inf["full"]}: manifest/__all__/exports {ev} != predicted {exp}', dict(subject=s, observed=ev))
                continue
            ts = by_id.get(s['sid'], {})
            if not ts:
                raise core.MachineryError(f'no trace for subject {s["sid"]} {inf["full"]}')
            t0 = next(iter(ts.values()))
            shape_obs = dict(path=t0['path'], msgs=t0['msgs'], enums=t0['enums'], fields=t0['fields'])
            if shape_obs != inf['shape']:
                raise core.MachineryError(f'concretiser/projection disagree on the INPUT shape of {inf["full"]}:\n{shape_obs}\n{inf["shape"]}')
            classes = [fclass(dict(f, reftok=f['ref']), reserved) for f in s['fields']]
            if s.get('big'):
                # hand-laid shapes are judged by TypesTrace; a recorded exception is reported here as well (the number of
                # rejections followed per batch is capped)
                C.case(f'{shape_class(s, reserved)}:{len(ts)} scripts')
                for t in ts.values():
                    err = next((e for e in t['events'] if e['ev'] == 'error'), None)
                    if err is not None:
                        C.violation(f'roundtrip:error:{shape_class(s, reserved)}', f'{inf["full"]} ops={t.get("ops")}: {err["what"]}',
                                      dict(subject=shape_class(s, reserved), trace=t['events'][1:]))
                        break
                continue
            # declaration
            kn = dict(zip(('Kid', 'KE'), kid_names(s['ctx']['file'])))
            exp = dict(path=inf['shape']['path'], msgs=[kn[x] for x in s['decl']['msgs']], enums=[kn[x] for x in s['decl']['enums']],
                       fields=[dict(d, ref=inf['tg'][d['ref']] if d['ref'] else '') for d in s['decl']['fields']])
            ev0 = t0['events'][0]
            dkey = 'decl:' + '+'.join(sorted(set(classes))) + f":d{s['ctx']['depth']}{s['ctx']['file']}"
            C.case(dkey, nontrivial=bool(s['fields']))
            if ev0['ev'] != 'declare':
                what = ev0.get('what', '?')
                storms[what] = storms.get(what, 0) + 1
                if storms[what] <= 3:      # a module whose descriptors cannot be built fails for every class alike
                    C.violation('declare-error:' + '+'.join(sorted(set(classes))), f'{inf["full"]}: {ev0}', dict(subject=s, observed=ev0))
                continue
            diffs, first = diff_decl(exp, ev0['decl'])
            if diffs:
                for t in ts.values():
                    t['suspect'] = True
                cl = classes[first] if first is not None else 'shape'
                C.violation(f'decl:{",".join(diffs)}:{cl}', f'{inf["full"]}: emitted class declares {ev0["decl"]}; predicted {exp}',
                              dict(subject={k: v for k, v in s.items() if k != 'scripts'}, expected=exp, observed=ev0['decl']))
            # round trips
            for si, c in enumerate(s['scripts']):
                t = ts.get(si)
                if t is None:
                    raise core.MachineryError(f'no trace for script {si} of {inf["full"]}')
                evs = {e['ev']: e for e in t['events']}
                touched = sorted(set(classes[o['f'] - 1] + ':' + o['op'] for o in c['ops']))
                skey = 'rt:' + '+'.join(sorted(set(classes))) + '|' + ','.join(touched)
                C.case(skey, nontrivial=bool(c['ops']))
                bad = []
                if 'error' in evs:
                    bad.append('error ' + evs['error']['what'])
                else:
                    if evs['decode_in']['val'] != c['out']:
                        bad.append(f"out: decoded by input {evs['decode_in']['val']} != predicted {c['out']}")
                    if evs['encode']['nums'] != sorted(c['nums']):
                        bad.append(f"wire numbers {evs['encode']['nums']} != predicted {sorted(c['nums'])}")
                    keys = set(evs['json']['keys'])
                    if not (set(c['jsonMust']) <= keys <= set(c['jsonMay'])):
                        bad.append(f"json keys {sorted(keys)} not between {c['jsonMust']} and {c['jsonMay']}")
                    if evs['decode_gen']['val'] != c['out']:
                        bad.append(f"in: read through generated class {evs['decode_gen']['val']} != predicted {c['out']}")
                if bad:
                    t['suspect'] = True
                    which = ','.join(sorted(set(b.split(':')[0].split(' ')[0] for b in bad)))
                    C.violation(f'roundtrip:{which}:' + ','.join(touched or ['empty']), f'{inf["full"]} ops={c["ops"]}: ' + '; '.join(bad),
                                  dict(subject={k: v for k, v in s.items() if k != 'scripts'}, case=c, trace=t['events']))

    for what, n in sorted(storms.items()):
        if n > 3:
            chk.violation(f'declare-error:module:{error_class(what)}', f'{n} classes cannot be declared: {what}', dict(error=what, classes=n))

    # 4. code -> spec: batched trace validation ---------------------------------------------------------------------
    # traces that the comparison above already flagged (or that recorded an exception) go into batches of their own: a
    # rejected trace makes TLC re-run the rest of its batch, and at most 10 rejections are followed per batch
    keep = ('kind', 'path', 'msgs', 'enums', 'fields', 'values', 'tops', 'events')
    batch = [{k: t[k] for k in keep} for t in all_traces]
    suspect = [i for i, t in enumerate(all_traces) if t.get('suspect') or any(e['ev'] == 'error' for e in t['events'])]
    sus = set(suspect)
    clean = [i for i in range(len(batch)) if i not in sus]
    nb = 6 if quick else 12
    chunks = [clean[k::nb] for k in range(nb)] + [suspect[k::2] for k in range(2)]
    chunks = [c for c in chunks if c]
    chk.extra['traces_recorded'] = len(batch)
    chk.extra['traces_already_flagged'] = len(suspect)
    tcfg = cfg_text('TypesTrace.cfg')
    vfuts = [pool.submit(tlc.validate_all, 'TypesTrace', tcfg, [batch[i] for i in ch], timeout=1700,
                         max_rejects=(3 if quick else 10) if ch[0] in sus else 10) for ch in chunks]
    for ch, vf in zip(chunks, vfuts):
        try:
            accepted, rejected, runs = vf.result()
        except RuntimeError as e:
            raise core.MachineryError(str(e))
        for r3 in runs:
            chk.states += r3.distinct; chk.transitions += r3.generated
        chk.tlc_runs.append(dict(label='TypesTrace batch', traces=len(ch), runs=len(runs), accepted=accepted, rejected=len(rejected)))
        chk.traces += accepted
        for idx, t, info in rejected:
            tr = all_traces[ch[idx]]
            nxt = info.get('next_event')
            evname = nxt.get('ev') if isinstance(nxt, dict) else 'end'
            sub = by_sid.get(tr['id']) if tr['kind'] == 'val' else None
            if sub is not None and not sub.get('big'):
                if isinstance(nxt, dict) and nxt.get('ev') == 'op':
                    f = sub['fields'][nxt['o']['f'] - 1]
                    cl = fclass(dict(f, reftok=f['ref']), reserved) + ':' + nxt['o']['op']
                else:
                    cl = shape_class(sub, reserved)
            elif sub is not None and isinstance(nxt, dict) and nxt.get('ev') == 'op':
                f = tr['fields'][nxt['o']['f'] - 1]
                cl = shape_class(sub, reserved) + ':' + fclass(dict(f, ref=''), reserved) + ':' + nxt['o']['op']
            else:
                cl = shape_class(sub, reserved) if sub is not None else stable_name(tr['full'])
            chk.violation(f'trace:{tr["kind"]}:{evname}:{cl}', f'TypesTrace rejected the recorded behaviour of {tr["full"]}: '
                          f'{json.dumps(info, default=str)[:1200]}', dict(trace=tr, info=info))

    lap('traces validated')
    # the model-checking runs started at the beginning
    for label, j in jobs:
        chk.add_tlc(j.result(), label)
    rejected_mutants = {}
    for m, j in mjobs:
        r = j.result()
        chk.tlc_runs.append(dict(label=f'mutant {m}', **r.summary()))
        if not (r.violated or '').startswith('Inv_'):
            raise core.MachineryError(f'spec mutant {m} was not rejected by TLC (violated={r.violated})\n{r.out[-1500:]}')
        rejected_mutants[m] = r.violated
    chk.extra['spec_mutants_rejected'] = rejected_mutants
    pool.shutdown()
    lap('model checking joined')

    chk.extra.update(message_traces=nclasses, subjects=len(subjects), packs=len(results),
                     shapes=dict(one=len(cases_one), small=len(cases_small), sim=len(cases_sim)),
                     reserved_names=len(reserved))
    chk.rule = ('cases = message shapes chosen by TLC (Types.emit.one: one field over every scalar/enum/message kind x '
                '{single, optional, repeated, oneof, map over every legal key kind} x reference target x 5 nesting contexts; '
                'Types.emit.sim: -simulate, <= 4 fields, <= 4 ops, all alphabets, depth 1..4, both files) x valuation scripts, '
                'plus enum shapes and module manifests; executed = one declaration comparison per shape + one two-way round trip '
                'per script; non-trivial = shape with >= 1 field / script with >= 1 op; distinct by (field classes, context) and '
                '(field classes, touched field class:op)')
    for t in all_traces:
        if t['kind'] == 'val' and t.get('script', -1) >= 0 and len(t['events']) > 3 and len(t['fields']) <= 4:
            chk.sample(dict(cls=t['full'], fields=[dict(f, name=snake(f['name'])) for f in t['fields']], ops=t.get('ops'),
                            events=[e for e in t['events'] if e['ev'] != 'declare'][:8]), limit=4)
    chk.assumptions += [
        'byte-level varint/zig-zag/packing correctness is protobuf\'s, not the generator\'s: the specification decides field '
        'identity (number, type, referenced type), presence, oneof exclusivity, map/repeated placement and naming; bytes are '
        'decoded with dynamic messages built from the INPUT FileDescriptorProtos',
        'reserved words = gapic.utils.reserved_names.RESERVED_NAMES read at run time (passed to TLC as the constant Reserved)',
        'the synthetic oneof of a proto3 optional field is compared as "explicit presence + proto3_optional", not by its name '
        '(proto-plus derives that name from the Python attribute)',
        'to_json: keys must lie between the lowerCamel names of the set fields and those of all fields (which defaulted fields '
        'are printed is a proto-plus option, not part of the property)',
        'proto sub-packages (F4) and upper-case proto file names (F15) are kept out of the generated APIs',
        'enum field types used in valuations carry the numbers 0, 1, 5; message-typed values are numbered by a `tag` field '
        '(recursive references nest through the referring field itself)',
    ]


main.level = 'model_checking'
