"""Loopback gRPC server with raw-bytes generic handlers + recording of channel-side calls (DESIGN 3.3).

Server: every path is served by a stream-stream handler with identity (de)serialisers, so it accepts a
call of ANY arity and sees the raw request bytes, the invocation metadata and the deadline; the reply is
taken from a responder callable.  Client-side arity and per-attempt timeouts are observed by
`record_channel`, which patches the four multicallable factories of a REAL channel instance (works for
grpc.Channel and grpc.aio.Channel, and survives grpc.intercept_channel, which delegates to them).
"""
import threading
from concurrent import futures

import grpc


class Abort(Exception):
    def __init__(self, code, msg='scripted', trailing=()):
        self.code, self.msg, self.trailing = code, msg, trailing


class Server:
    """responder(path, [request bytes...], metadata:list[(k,v)], time_remaining) -> iterable of reply bytes,
    or raises Abort(code)."""

    def __init__(self, responder, log=None, workers=4):
        self.responder = responder
        self.log = log if log is not None else []
        self.lock = threading.Lock()
        outer = self

        class H(grpc.GenericRpcHandler):
            def service(self, hcd):
                path = hcd.method

                def ss(req_iter, ctx):
                    reqs = [r for r in req_iter]
                    md = [(k, v if isinstance(v, str) else v.decode('latin1')) for k, v in ctx.invocation_metadata()]
                    tr = ctx.time_remaining()
                    with outer.lock:
                        outer.log.append(dict(ev='ServerRecv', path=path, reqs=reqs, md=md, time_remaining=tr))
                    try:
                        replies = list(outer.responder(path, reqs, md, tr))
                    except Abort as a:
                        if a.trailing:
                            ctx.set_trailing_metadata(a.trailing)
                        ctx.abort(getattr(grpc.StatusCode, a.code), a.msg)
                    for r in replies:
                        yield r
                return grpc.stream_stream_rpc_method_handler(ss)

        self.srv = grpc.server(futures.ThreadPoolExecutor(max_workers=workers))
        self.srv.add_generic_rpc_handlers((H(),))
        self.port = self.srv.add_insecure_port('127.0.0.1:0')
        self.srv.start()
        self.target = f'127.0.0.1:{self.port}'

    def stop(self):
        self.srv.stop(0)


class _RecMC:
    """wraps a multicallable; records every invocation with its timeout/metadata kwargs."""

    def __init__(self, inner, kind, path, log):
        self._inner, self._kind, self._path, self._log = inner, kind, path, log

    def _rec(self, how, k):
        md = k.get('metadata')
        self._log.append(dict(ev='ChannelCall', kind=self._kind, path=self._path, how=how, timeout=k.get('timeout'),
                              md=[(a, b) for a, b in (md or [])]))

    def __call__(self, *a, **k):
        self._rec('call', k); return self._inner(*a, **k)

    def with_call(self, *a, **k):
        self._rec('with_call', k); return self._inner.with_call(*a, **k)

    def future(self, *a, **k):
        self._rec('future', k); return self._inner.future(*a, **k)

    def __getattr__(self, n):
        return getattr(self._inner, n)


def record_channel(channel, log):
    """patch the factories of this channel INSTANCE; returns the same channel."""
    for kind in ('unary_unary', 'unary_stream', 'stream_unary', 'stream_stream'):
        orig = getattr(channel, kind)

        def factory(method, *a, _orig=orig, _kind=kind, **k):
            log.append(dict(ev='Factory', kind=_kind, path=method))
            return _RecMC(_orig(method, *a, **k), _kind, method, log)
        setattr(channel, kind, factory)
    return channel


def sync_channel(target, log):
    return record_channel(grpc.insecure_channel(target), log)


def aio_channel(target, log):
    return record_channel(grpc.aio.insecure_channel(target), log)
