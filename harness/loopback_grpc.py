"""Loopback gRPC server with raw-bytes generic handlers + recording of channel-side calls (DESIGN 3.3).

Server: every path is served by a stream-stream handler with identity (de)serialisers, so it accepts a
call of ANY arity and sees the raw request bytes, the invocation metadata and the deadline; the reply is
taken from a responder callable.  Client-side arity and per-attempt timeouts are observed by
`record_channel`, which patches the four multicallable factories of a REAL channel instance (works for
grpc.Channel and grpc.aio.Channel, and survives grpc.intercept_channel, which delegates to them).
"""
import threading
from concurrent import futures

import grpc


class Abort(Exception):
    def __init__(self, code, msg='scripted', trailing=()):
        self.code, self.msg, self.trailing = code, msg, trailing


class Server:
    """responder(path, [request bytes...], metadata:list[(k,v)], time_remaining) -> iterable of reply bytes,
    or raises Abort(code)."""

    def __init__(self, responder, log=None, workers=4):
        self.responder = responder
        self.log = log if log is not None else []
        self.lock = threading.Lock()
        outer = self

        class H(grpc.GenericRpcHandler):
            def service(self, hcd):
                path = hcd.method

                def ss(req_iter, ctx):
                    reqs = [r for r in req_iter]
                    md = [(k, v if isinstance(v, str) else v.decode('latin1')) for k, v in ctx.invocation_metadata()]
                    tr = ctx.time_remaining()
                    with outer.lock:
                        outer.log.append(dict(ev='ServerRecv', path=path, reqs=reqs, md=md, time_remaining=tr))
                    try:
                        replies = list(outer.responder(path, reqs, md, tr))
                    except Abort as a:
                        if a.trailing:
                            ctx.set_trailing_metadata(a.trailing)
                        ctx.abort(getattr(grpc.StatusCode, a.code), a.msg)
                    for r in replies:
                        yield r
                return grpc.stream_stream_rpc_method_handler(ss)

        self.srv = grpc.server(futures.ThreadPoolExecutor(max_workers=workers))
        self.srv.add_generic_rpc_handlers((H(),))
        self.port = self.srv.add_insecure_port('127.0.0.1:0')
        self.srv.start()
        self.target = f'127.0.0.1:{self.port}'

    def stop(self):
        self.srv.stop(0)


def _rec(log, kind, path, how, k):
    md = k.get('metadata')
    log.append(dict(ev='ChannelCall', kind=kind, path=path, how=how, timeout=k.get('timeout'),
                    md=[(a, b) for a, b in (md or [])]))


_PROXIES = {}


def _proxy_class(base, kind):
    """a recording multicallable that is an INSTANCE of the public grpc ABC of its arity (api-core dispatches its
    error wrappers with isinstance on these ABCs)."""
    key = (base, kind)
    if key in _PROXIES:
        return _PROXIES[key]

    class P(base):
        def __init__(self, inner, path, log):
            self._inner, self._path, self._log = inner, path, log

        def __call__(self, *a, **k):
            _rec(self._log, kind, self._path, 'call', k); return self._inner(*a, **k)

        def with_call(self, *a, **k):
            _rec(self._log, kind, self._path, 'with_call', k); return self._inner.with_call(*a, **k)

        def future(self, *a, **k):
            _rec(self._log, kind, self._path, 'future', k); return self._inner.future(*a, **k)

        def __getattr__(self, n):
            return getattr(self._inner, n)
    P.__name__ = 'Rec' + base.__name__
    _PROXIES[key] = P
    return P


_SYNC_BASES = dict(unary_unary=grpc.UnaryUnaryMultiCallable, unary_stream=grpc.UnaryStreamMultiCallable,
                   stream_unary=grpc.StreamUnaryMultiCallable, stream_stream=grpc.StreamStreamMultiCallable)
_AIO_BASES = dict(unary_unary=grpc.aio.UnaryUnaryMultiCallable, unary_stream=grpc.aio.UnaryStreamMultiCallable,
                  stream_unary=grpc.aio.StreamUnaryMultiCallable, stream_stream=grpc.aio.StreamStreamMultiCallable)


def record_channel(channel, log):
    """patch the factories of this channel INSTANCE; returns the same channel."""
    bases = _AIO_BASES if isinstance(channel, grpc.aio.Channel) else _SYNC_BASES
    for kind in ('unary_unary', 'unary_stream', 'stream_unary', 'stream_stream'):
        orig = getattr(channel, kind)

        def factory(method, *a, _orig=orig, _kind=kind, **k):
            log.append(dict(ev='Factory', kind=_kind, path=method))
            return _proxy_class(bases[_kind], _kind)(_orig(method, *a, **k), method, log)
        setattr(channel, kind, factory)
    return channel


def sync_channel(target, log):
    return record_channel(grpc.insecure_channel(target), log)


def aio_channel(target, log):
    return record_channel(grpc.aio.insecure_channel(target), log)
