#!/bin/sh
# Offline setup: byte-compile the harness and parse every specification with SANY. Nothing is installed.
set -e
cd /verif
/venv/bin/python -m compileall -q harness >/dev/null
fail=0
for f in spec/*.tla; do
  m=$(basename "$f" .tla)
  out=$(cd spec && java -cp /opt/veriftools/tla/tla2tools.jar:/opt/veriftools/tla/CommunityModules-deps.jar tla2sany.SANY "$m.tla" 2>&1) || true
  if echo "$out" | grep -q -e "Semantic errors" -e "Fatal errors" -e "Parse Error" -e "Could not"; then
    echo "SANY failed for $m"; echo "$out" | tail -20; fail=1
  fi
done
chmod +x check tools/pandoc
echo '{"findings": [], "fixed": []}' > /dev/null
exit $fail
