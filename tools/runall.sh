#!/bin/bash
# Run every registered check once (default: quick) against /repo itself, sequentially; rewrites /verif/evidence/*.json.
cd /verif
tier=${1:-quick}
for p in $(python3 -c "import json; print(' '.join(c['property_id'] for c in json.load(open('MANIFEST.json'))['checks']))"); do
  /usr/bin/time -f "$p %es" ./check $p --tier $tier 2>&1 | grep -v "^  \|^KNOWN-FINDING" | tail -2
done
# specification growth beyond the listed properties (harness/props/ext_*.py; not in MANIFEST.checks)
for p in EXT_ENDPOINT EXT_RESTCALL EXT_LOGGING EXT_SAMPLECFG EXT_FIXUP; do
  /usr/bin/time -f "$p %es" ./check $p --tier $tier 2>&1 | grep -v "^  \|^KNOWN-FINDING" | tail -2
done
