#!/usr/bin/env python3
"""(Re)writes seeded/<id>/meta.json from result.json and the description table below."""
import json, os, glob
VERIF = os.path.dirname(os.path.dirname(os.path.abspath(__file__)))
DESC = {
 'C07-1': ('C07', 'paged_result_field prefers the first repeated MESSAGE field over an earlier repeated scalar', 'a response that declares a repeated scalar/enum before a repeated message or map'),
 'C07-2': ('C07', 'AsyncPager.__aiter__ of map-valued result fields yields keys only (map and list branches merged)', 'asyncio client + map<string,V> as first repeated response field'),
 'C11-1': ('C11', 'response files collected in a list instead of the name-keyed dict: duplicate names', 'unversioned proto package (templates %name/ and %name_%version/ coincide)'),
 'C11-2': ('C11', 'keyword test of proto file names applied to the stem including the directory', 'keyword/control-parameter file name with a directory part (acme/x/v1/import.proto)'),
 'C15-1': ('C15', 'gapic_metadata method-name memo shared across services', '>=2 services sharing an RPC name that is internal in only one of them (selective generation, generate_omitted_as_internal)'),
 'C15-2': ('C15', 'legacy_flattened_fields sorted by (not required, field number) instead of declaration order', 'request whose declaration order differs from its field numbering'),
 'C03-1': ('C03', 'instance-level _stubs removed from the asyncio transport: class-level stub cache shared by all transports', 'two asyncio client instances of one service on different channels in one process'),
 'C03-2': ('C03', "RPC path literal built from transport_safe_name ('/pkg.Svc/Import_')", 'RPC named by a Python keyword or CreateChannel/GrpcChannel/OperationsClient'),
 'C01-1': ('C01', 'Address.rel returns the bare name for a type nested >= 2 levels inside the referencing message', 'top-level message with a field whose type sits two or more levels inside itself'),
 'C01-2': ('C01', 'retry_async import made conditional on grpc in pagers.py.j2 while the OptionalAsyncRetry alias stays unconditional', 'transport=rest together with a paginated RPC'),
 'C04-1': ('C04', '_get_unset_required_fields pops from the shared class-level defaults dict', 'two calls of the same method: first with a required query field set, then default-valued'),
 'C04-2': ('C04', 'query params dropped when the PRIMARY binding has body "*"', 'primary body "*" + additional binding with a body field, request selecting the additional binding, extra fields set'),
 'C06-1': ('C06', 'routing parameters with a template are skipped when their key is already resolved (first match wins)', '>=2 routing parameters sharing a key, a later one with a template, an earlier one already matched'),
 'C06-2': ('C06', 'field_headers returns () when http_options is empty', 'implicit routing for a method bound with the HttpRule `custom` pattern'),
 'C09-1': ('C09', 'methodConfig narrowed per service by the FIRST name of each entry', '>=2 services and an entry whose names span services'),
 'C09-2': ('C09', 'async wrapped methods: default_timeout only rendered inside `if method.retry`', 'asyncio client + methodConfig entry with timeout but no retryPolicy'),
 'C10-1': ('C10', 'sync client resource helpers sorted by resource_type only (tie-break removed)', 'two resources with the same short type name under different domains'),
 'C10-2': ('C10', 'sort_lines sorts by the text before a trailing comment (ties between lines differing in their comment)', 'mixin yaml (Operations/Locations) + an RPC referencing a type of that module directly'),
 'C05-1': ('C05', "mixed-argument guard uses any(flattened_params) instead of 'is not None'", 'sync client, request + a falsy-but-set flattened argument (0, "", False, [], {})'),
 'C08-1': ('C08', "_maybe_get_lro treats an annotation with BOTH type names empty as 'no annotation'", 'Operation-returning method annotated with an empty operation_info {}'),
 'C08-2': ('C08', 'OperationInfo.with_context skipped for non-proto-plus LRO types: api-core operation module loses its alias', 'LRO with Empty response + method_signature field literally named `operation` + sync client'),
 'C12-1': ('C12', 'Address.python_import drops the module alias for types from a proto-plus dependency', 'option proto-plus-deps + a module of that package sharing its base name with another imported module'),
 'C12-2': ('C12', "to_camel_case keeps a trailing underscore ('type_')", 'REST + REQUIRED field named by a reserved word travelling as a query parameter'),
 'C13-1': ('C13', 'REST required-defaults table renders every non-string scalar default as the literal 0', 'REQUIRED bool/float/double field that is a REST query parameter (default templates)'),
 'C13-2': ('C13', "asyncio client: 'and not field.map' removed from the list-extend loop of flattened fields", 'asyncio client + method_signature containing a map field'),
 'C17-1': ('C17', 'selector->method map of mixin services accumulates across calls', 'own IAM RPC + IAMPolicy with rules + google.longrunning.Operations also listed'),
 'C17-2': ('C17', 'legacy add-iam entries of the asyncio transport emitted only when the API has no IAM mixin', 'add-iam-methods + IAMPolicy listed + an IAM RPC without http rule + asyncio client'),
 'C18-1': ('C18', 'AIP-4235 field checks cached per request message (ignores the selector\'s own field list)', 'two RPCs sharing one request message with different auto_populated_fields, the valid one first'),
 'C18-2': ('C18', 'auto_populate call moved inside the implicit-routing branch of create_metadata', 'auto-populated method with explicit routing annotation or without any routing header'),
 'C19-1': ('C19', 'path_regex_str drops the literal text after the last variable', 'pattern ending in a literal (singleton suffix)'),
 'C19-2': ('C19', 'Ads client formats resource_path instead of resource_path_formatted', 'ads-templates + a trailing {v=**} variable'),
 'C20-1': ('C20', "fix_whitespace skips the blank-line passes unless the RAW text contains three newlines in a row", 'surplus blank-line run whose blank lines carry spaces, in a file without a literal triple newline'),
 'C20-2': ('C20', 'rst() pads a trailing double quote only on the plain route', 'single-line comment with a markup character that ends in a double quote, at a site that closes the docstring right after it'),
 'C05-2': ('C05', 'asyncio client extends repeated flattened fields again for dependency-package requests', 'asyncio client + request from a dependency package + non-empty repeated scalar flattened field'),
 'C01-3': ('C01', 'MessageType.with_context mutates the shared visited set instead of copying it: later references to an already visited message keep the un-aliased module name', 'a type of another file of the package referenced twice from one message (directly and through a nested message / map entry), module name shadowed by a field name'),
 'C01-4': ('C01', 'client import block built from a set of Import objects whose hash ignores the alias', 'a flattened parameter named like the types module of another file (aliased inside that method) next to a method using the plain module name'),
 'C02-1': ('C02', 'oneof names kept on the loader object: fields of a later message resolve their oneof index against the names of the previously loaded message', 'two messages with oneofs in one file (sibling declared after a message with other oneofs)'),
 'C02-2': ('C02', 'Address.rel returns the bare name of a top-level message whenever the referencing message sorts before it in module_path', 'twin references: a message referencing a top-level message declared later in the same file'),
 'C03-3': ('C03', 'has_iam_mixin override test keeps only the LAST service (loop overwrites instead of accumulating)', 'two services, the IAM RPCs declared by the first one, IAMPolicy mixin listed'),
 'C03-4': ('C03', 'dict requests of dependency-package types parsed with json_format.ParseDict instead of keyword expansion', 'dependency-package request passed as dict with a bytes field'),
 'C04-3': ('C04', 'path-variable regex made greedy / dotted: two variables in one URI collapse into one', 'URI with a dotted variable or two variables'),
 'C04-4': ('C04', 'query params from MessageToDict without use_integers_for_enums', 'rest-numeric-enums + enum-valued query parameter'),
 'C05-3': ('C05', 'flattened fields of dependency-package requests: enum fields offered as keywords but dropped by the asyncio constructor call', 'asyncio client + dependency-package request + enum flattened field'),
 'C05-4': ('C05', 'Ads client: dict branch for every request type; proto-plus requests no longer coerced', 'ads-templates + dependency-package request / keyword arguments'),
 'C06-3': ('C06', 'REST sync transport mutates session.headers with per-call metadata: routing header of an earlier call leaks into later calls', 'two REST calls on one client, the second without routing header'),
 'C06-4': ('C06', 'routing regex loses its ^ anchor and is applied with search', 'explicit routing template that matches a suffix of the field value only'),
 'C07-3': ('C07', 'pager request copied only in the sync client macro; asyncio client keeps mutating the caller request', 'asyncio client + one request object used for two listings'),
 'C07-4': ('C07', 'paging control fields that are oneof members (proto3 optional) no longer qualify', 'proto3-optional page_size / max_results / page_token'),
 'C09-3': ('C09', 'backoff multiplier rendered only when > 1', 'retryPolicy with backoffMultiplier 1 (or below)'),
 'C09-4': ('C09', 'sync pager re-issues the call without retry= and timeout=', 'sync paginated call with explicit retry / timeout, second page'),
 'C11-3': ('C11', "empty path segments collapsed by one str.replace('//','/') instead of the regex", 'ads-templates (adjacent %version/%sub variables) + unversioned package'),
 'C11-4': ('C11', 'file-name disambiguation rewritten as a loop that forgets to recompute the visited path', 'two target files whose names sanitise to the same module (lib_admin.proto before lib.admin.proto)'),
 'C14-1': ('C14', 'sample region-tag short name taken from the first service for all services', 'two services with different default hosts'),
 'C14-2': ('C14', 'sample request builder never expands a message type twice', 'request with two required message fields of the same type'),
 'C15-3': ('C15', 'snippet generator deletes the rest entry from a cached clients mapping shared with gapic_metadata', 'transport=grpc+rest with snippets on and metadata on'),
 'C15-4': ('C15', 'legacy_flattened_fields (fix-up script table) filtered like method signatures for dependency-package requests', 'RPC whose request type lives in a dependency package and has a message field'),
 'C16-1': ('C16', 'map entry messages no longer added to the address allow-list', 'selective generation keeping a method whose messages hold a map field'),
 'C16-2': ('C16', 'operation polling method walked only the first time the operation service is seen', 'selective generation listing a non-polling RPC of the operation service before an extended-operation RPC'),
 'C18-3': ('C18', 'duplicate selector detection by itertools.groupby (adjacent duplicates only)', 'three method_settings entries with the duplicate selectors not adjacent'),
 'C18-4': ('C18', 'Ads auto-populate ignores proto3 optional presence', 'ads-templates + proto3-optional auto-populated field explicitly set to the empty string'),
}
HISTORY = {
 'C01-3': 'MISSED at first; caught after feature f_crossfile got a field named like the other module plus nested/map references to its types',
 'C01-4': 'MISSED at first; caught after feature f_crossfile got RPCs StampBook (flattened parameter named like the module) and GetAuthor',
 'C02-2': 'MISSED at first; caught after twin reference targets (forward references between top-level messages) were added to Types.tla',
 'C03-3': 'MISSED at first (by C03 and C17); caught by C17 after Mixins.tla got two-service layouts (own_first / own_last)',
 'C03-4': 'MISSED at first; caught after the Call carrier got a bytes field (blob)',
 'C05-3': 'MISSED at first; caught after the optional enum keyword of dependency-package requests (constant DepEnumOffered) was modelled in Call.tla',
 'C05-4': 'MISSED at first; caught after the Call carrier was also run with the Ads template set',
 'C07-3': 'MISSED at first; caught after the pager driver listed twice with one request object',
 'C07-4': 'MISSED at first; caught after proto3-optional paging fields were added to Paging.tla',
 'C09-4': 'caught by C07 (PagerTrace: re-issued call must carry the same options); C09 itself has no paged method',
 'C11-3': 'MISSED at first; caught after the Ads layout (scope ads) was added to Pipeline.tla',
 'C11-4': 'MISSED at first; caught after scope twins (two files sanitising to one module, both orders) was added to Pipeline.tla',
 'C14-1': 'MISSED at first; caught after the sample space got two services with different hosts',
 'C14-2': 'MISSED at first; caught after the sample request space got two required message fields of one type',
 'C15-4': 'MISSED at first; caught after extra=xreq (RPC with a dependency-package request) was added to Pipeline.tla',
 'C16-2': 'MISSED at first; caught after the ext scope of Selective.tla got a non-polling RPC of the operation service and both declaration orders',
 'C18-3': 'MISSED at first; caught after Settings.tla enumerated three-entry lists',
 'C18-4': 'MISSED at first; caught after the Call carrier was also run with the Ads template set',
 'C15-1': 'MISSED at first; caught after service pairs were added to the tiny scope of Pipeline.tla and `internal` to the shapes scope',
 'C15-2': 'MISSED at first; caught after the carrier request got non-monotonic field numbers',
 'C03-1': 'MISSED at first; caught after the call driver was changed to two clients on two servers (own-channel flag in sent events, CallTrace requires it)',
 'C03-2': 'caught by C12 at first, by C03 too after keyword / CreateChannel RPC names were added to the Call carrier',
 'C01-1': 'MISSED by C01 at first; caught after feature f_nested got references two and three levels into the referencing message',
 'C06-2': 'MISSED at first; caught after the `custom` http pattern was added to the implicit-routing space of Routing.tla',
 'C10-2': 'MISSED at first; caught after the stress API got a raw-Operation RPC next to the Operations mixin (feature m_raw_operation)',
 'C12-1': 'MISSED at first; caught after the proto-plus-deps collision case was added',
 'C12-2': 'caught by C04 at first; by C12 too after the top-level field case made the word REQUIRED and REST-query bound',
 'C13-1': 'caught by C04 at first; by C13 too after feature s_required got required bool/double/int64 query parameters',
 'C13-2': 'caught by C05 at first; by C13 too after a flattened map method and fixed corner pairs were added',
 'C07-1': 'caught by the classification part (Paging.tla) that had just been added to C07',
}
def main():
    for d in sorted(glob.glob(os.path.join(VERIF, 'seeded', '*'))):
        name = os.path.basename(d)
        rp = os.path.join(d, 'result.json')
        if name not in DESC or not os.path.exists(rp):
            continue
        txt = open(rp).read()
        try:
            r = json.loads(txt[txt.index('{\n "name"'):])
        except Exception:
            continue
        pid, what, needs = DESC[name]
        caught = {k: v['rc'] == 1 for k, v in r.get('checks', {}).items()}
        meta = dict(id=name, breaks_property=pid, change=what, needs_to_manifest=needs,
                    written_by='independent sub-agent given only the property text and a private worktree',
                    confirmed=dict(pinned_suite=r.get('pytest'), demo_on_clean_tree_exit=r.get('demo_clean_rc'), demo_with_change_exit=r.get('demo_patched_rc'),
                                   patch_applies=r.get('apply_rc') == 0),
                    ran=[f"tools/seedcheck.py {name} seeded/{name}/patch.diff seeded/{name}/demo.py {','.join(r.get('props', []))} --tier {r.get('tier')}"],
                    caught_by={k: dict(caught=v, first_keys=r['checks'][k]['keys'][:3]) for k, v in caught.items()},
                    history=HISTORY.get(name, 'caught by the checks as they were when the change was first evaluated'))
        json.dump(meta, open(os.path.join(d, 'meta.json'), 'w'), indent=1)
        print(name, caught)


if __name__ == '__main__':
    main()
