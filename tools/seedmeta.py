#!/usr/bin/env python3
"""(Re)writes seeded/<id>/meta.json from result.json and the description table below."""
import json, os, glob
VERIF = os.path.dirname(os.path.dirname(os.path.abspath(__file__)))
DESC = {
 'C07-1': ('C07', 'paged_result_field prefers the first repeated MESSAGE field over an earlier repeated scalar', 'a response that declares a repeated scalar/enum before a repeated message or map'),
 'C07-2': ('C07', 'AsyncPager.__aiter__ of map-valued result fields yields keys only (map and list branches merged)', 'asyncio client + map<string,V> as first repeated response field'),
 'C11-1': ('C11', 'response files collected in a list instead of the name-keyed dict: duplicate names', 'unversioned proto package (templates %name/ and %name_%version/ coincide)'),
 'C11-2': ('C11', 'keyword test of proto file names applied to the stem including the directory', 'keyword/control-parameter file name with a directory part (acme/x/v1/import.proto)'),
 'C15-1': ('C15', 'gapic_metadata method-name memo shared across services', '>=2 services sharing an RPC name that is internal in only one of them (selective generation, generate_omitted_as_internal)'),
 'C15-2': ('C15', 'legacy_flattened_fields sorted by (not required, field number) instead of declaration order', 'request whose declaration order differs from its field numbering'),
 'C03-1': ('C03', 'instance-level _stubs removed from the asyncio transport: class-level stub cache shared by all transports', 'two asyncio client instances of one service on different channels in one process'),
 'C03-2': ('C03', "RPC path literal built from transport_safe_name ('/pkg.Svc/Import_')", 'RPC named by a Python keyword or CreateChannel/GrpcChannel/OperationsClient'),
 'C01-1': ('C01', 'Address.rel returns the bare name for a type nested >= 2 levels inside the referencing message', 'top-level message with a field whose type sits two or more levels inside itself'),
 'C01-2': ('C01', 'retry_async import made conditional on grpc in pagers.py.j2 while the OptionalAsyncRetry alias stays unconditional', 'transport=rest together with a paginated RPC'),
 'C04-1': ('C04', '_get_unset_required_fields pops from the shared class-level defaults dict', 'two calls of the same method: first with a required query field set, then default-valued'),
 'C04-2': ('C04', 'query params dropped when the PRIMARY binding has body "*"', 'primary body "*" + additional binding with a body field, request selecting the additional binding, extra fields set'),
 'C06-1': ('C06', 'routing parameters with a template are skipped when their key is already resolved (first match wins)', '>=2 routing parameters sharing a key, a later one with a template, an earlier one already matched'),
 'C06-2': ('C06', 'field_headers returns () when http_options is empty', 'implicit routing for a method bound with the HttpRule `custom` pattern'),
 'C09-1': ('C09', 'methodConfig narrowed per service by the FIRST name of each entry', '>=2 services and an entry whose names span services'),
 'C09-2': ('C09', 'async wrapped methods: default_timeout only rendered inside `if method.retry`', 'asyncio client + methodConfig entry with timeout but no retryPolicy'),
 'C10-1': ('C10', 'sync client resource helpers sorted by resource_type only (tie-break removed)', 'two resources with the same short type name under different domains'),
 'C10-2': ('C10', 'sort_lines sorts by the text before a trailing comment (ties between lines differing in their comment)', 'mixin yaml (Operations/Locations) + an RPC referencing a type of that module directly'),
 'C05-1': ('C05', "mixed-argument guard uses any(flattened_params) instead of 'is not None'", 'sync client, request + a falsy-but-set flattened argument (0, "", False, [], {})'),
 'C05-2': ('C05', 'asyncio client extends repeated flattened fields again for dependency-package requests', 'asyncio client + request from a dependency package + non-empty repeated scalar flattened field'),
}
for d in sorted(glob.glob(os.path.join(VERIF, 'seeded', '*'))):
    name = os.path.basename(d)
    rp = os.path.join(d, 'result.json')
    if name not in DESC or not os.path.exists(rp):
        continue
    txt = open(rp).read()
    try:
        r = json.loads(txt[txt.index('{\n "name"'):])
    except Exception:
        continue
    pid, what, needs = DESC[name]
    caught = {k: v['rc'] == 1 for k, v in r.get('checks', {}).items()}
    meta = dict(id=name, breaks_property=pid, change=what, needs_to_manifest=needs,
                written_by='independent sub-agent given only the property text and a private worktree',
                confirmed=dict(pinned_suite=r.get('pytest'), demo_on_clean_tree_exit=r.get('demo_clean_rc'), demo_with_change_exit=r.get('demo_patched_rc'),
                               patch_applies=r.get('apply_rc') == 0),
                ran=[f"tools/seedcheck.py {name} seeded/{name}/patch.diff seeded/{name}/demo.py {','.join(r.get('props', []))} --tier {r.get('tier')}"],
                caught_by={k: dict(caught=v, first_keys=r['checks'][k]['keys'][:3]) for k, v in caught.items()})
    json.dump(meta, open(os.path.join(d, 'meta.json'), 'w'), indent=1)
    print(name, caught)
