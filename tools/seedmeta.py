#!/usr/bin/env python3
"""(Re)writes seeded/<id>/meta.json from result.json and the description table below."""
import json, os, glob
VERIF = os.path.dirname(os.path.dirname(os.path.abspath(__file__)))
DESC = {
 'C07-1': ('C07', 'paged_result_field prefers the first repeated MESSAGE field over an earlier repeated scalar', 'a response that declares a repeated scalar/enum before a repeated message or map'),
 'C07-2': ('C07', 'AsyncPager.__aiter__ of map-valued result fields yields keys only (map and list branches merged)', 'asyncio client + map<string,V> as first repeated response field'),
 'C11-1': ('C11', 'response files collected in a list instead of the name-keyed dict: duplicate names', 'unversioned proto package (templates %name/ and %name_%version/ coincide)'),
 'C11-2': ('C11', 'keyword test of proto file names applied to the stem including the directory', 'keyword/control-parameter file name with a directory part (acme/x/v1/import.proto)'),
 'C15-1': ('C15', 'gapic_metadata method-name memo shared across services', '>=2 services sharing an RPC name that is internal in only one of them (selective generation, generate_omitted_as_internal)'),
 'C15-2': ('C15', 'legacy_flattened_fields sorted by (not required, field number) instead of declaration order', 'request whose declaration order differs from its field numbering'),
 'C03-1': ('C03', 'instance-level _stubs removed from the asyncio transport: class-level stub cache shared by all transports', 'two asyncio client instances of one service on different channels in one process'),
 'C03-2': ('C03', "RPC path literal built from transport_safe_name ('/pkg.Svc/Import_')", 'RPC named by a Python keyword or CreateChannel/GrpcChannel/OperationsClient'),
 'C01-1': ('C01', 'Address.rel returns the bare name for a type nested >= 2 levels inside the referencing message', 'top-level message with a field whose type sits two or more levels inside itself'),
 'C01-2': ('C01', 'retry_async import made conditional on grpc in pagers.py.j2 while the OptionalAsyncRetry alias stays unconditional', 'transport=rest together with a paginated RPC'),
 'C04-1': ('C04', '_get_unset_required_fields pops from the shared class-level defaults dict', 'two calls of the same method: first with a required query field set, then default-valued'),
 'C04-2': ('C04', 'query params dropped when the PRIMARY binding has body "*"', 'primary body "*" + additional binding with a body field, request selecting the additional binding, extra fields set'),
 'C06-1': ('C06', 'routing parameters with a template are skipped when their key is already resolved (first match wins)', '>=2 routing parameters sharing a key, a later one with a template, an earlier one already matched'),
 'C06-2': ('C06', 'field_headers returns () when http_options is empty', 'implicit routing for a method bound with the HttpRule `custom` pattern'),
 'C09-1': ('C09', 'methodConfig narrowed per service by the FIRST name of each entry', '>=2 services and an entry whose names span services'),
 'C09-2': ('C09', 'async wrapped methods: default_timeout only rendered inside `if method.retry`', 'asyncio client + methodConfig entry with timeout but no retryPolicy'),
 'C10-1': ('C10', 'sync client resource helpers sorted by resource_type only (tie-break removed)', 'two resources with the same short type name under different domains'),
 'C10-2': ('C10', 'sort_lines sorts by the text before a trailing comment (ties between lines differing in their comment)', 'mixin yaml (Operations/Locations) + an RPC referencing a type of that module directly'),
 'C05-1': ('C05', "mixed-argument guard uses any(flattened_params) instead of 'is not None'", 'sync client, request + a falsy-but-set flattened argument (0, "", False, [], {})'),
 'C08-1': ('C08', "_maybe_get_lro treats an annotation with BOTH type names empty as 'no annotation'", 'Operation-returning method annotated with an empty operation_info {}'),
 'C08-2': ('C08', 'OperationInfo.with_context skipped for non-proto-plus LRO types: api-core operation module loses its alias', 'LRO with Empty response + method_signature field literally named `operation` + sync client'),
 'C12-1': ('C12', 'Address.python_import drops the module alias for types from a proto-plus dependency', 'option proto-plus-deps + a module of that package sharing its base name with another imported module'),
 'C12-2': ('C12', "to_camel_case keeps a trailing underscore ('type_')", 'REST + REQUIRED field named by a reserved word travelling as a query parameter'),
 'C13-1': ('C13', 'REST required-defaults table renders every non-string scalar default as the literal 0', 'REQUIRED bool/float/double field that is a REST query parameter (default templates)'),
 'C13-2': ('C13', "asyncio client: 'and not field.map' removed from the list-extend loop of flattened fields", 'asyncio client + method_signature containing a map field'),
 'C17-1': ('C17', 'selector->method map of mixin services accumulates across calls', 'own IAM RPC + IAMPolicy with rules + google.longrunning.Operations also listed'),
 'C17-2': ('C17', 'legacy add-iam entries of the asyncio transport emitted only when the API has no IAM mixin', 'add-iam-methods + IAMPolicy listed + an IAM RPC without http rule + asyncio client'),
 'C18-1': ('C18', 'AIP-4235 field checks cached per request message (ignores the selector\'s own field list)', 'two RPCs sharing one request message with different auto_populated_fields, the valid one first'),
 'C18-2': ('C18', 'auto_populate call moved inside the implicit-routing branch of create_metadata', 'auto-populated method with explicit routing annotation or without any routing header'),
 'C19-1': ('C19', 'path_regex_str drops the literal text after the last variable', 'pattern ending in a literal (singleton suffix)'),
 'C19-2': ('C19', 'Ads client formats resource_path instead of resource_path_formatted', 'ads-templates + a trailing {v=**} variable'),
 'C20-1': ('C20', "fix_whitespace skips the blank-line passes unless the RAW text contains three newlines in a row", 'surplus blank-line run whose blank lines carry spaces, in a file without a literal triple newline'),
 'C20-2': ('C20', 'rst() pads a trailing double quote only on the plain route', 'single-line comment with a markup character that ends in a double quote, at a site that closes the docstring right after it'),
 'C05-2': ('C05', 'asyncio client extends repeated flattened fields again for dependency-package requests', 'asyncio client + request from a dependency package + non-empty repeated scalar flattened field'),
}
HISTORY = {
 'C15-1': 'MISSED at first; caught after service pairs were added to the tiny scope of Pipeline.tla and `internal` to the shapes scope',
 'C15-2': 'MISSED at first; caught after the carrier request got non-monotonic field numbers',
 'C03-1': 'MISSED at first; caught after the call driver was changed to two clients on two servers (own-channel flag in sent events, CallTrace requires it)',
 'C03-2': 'caught by C12 at first, by C03 too after keyword / CreateChannel RPC names were added to the Call carrier',
 'C01-1': 'MISSED by C01 at first; caught after feature f_nested got references two and three levels into the referencing message',
 'C06-2': 'MISSED at first; caught after the `custom` http pattern was added to the implicit-routing space of Routing.tla',
 'C10-2': 'MISSED at first; caught after the stress API got a raw-Operation RPC next to the Operations mixin (feature m_raw_operation)',
 'C12-1': 'MISSED at first; caught after the proto-plus-deps collision case was added',
 'C12-2': 'caught by C04 at first; by C12 too after the top-level field case made the word REQUIRED and REST-query bound',
 'C13-1': 'caught by C04 at first; by C13 too after feature s_required got required bool/double/int64 query parameters',
 'C13-2': 'caught by C05 at first; by C13 too after a flattened map method and fixed corner pairs were added',
 'C07-1': 'caught by the classification part (Paging.tla) that had just been added to C07',
}
for d in sorted(glob.glob(os.path.join(VERIF, 'seeded', '*'))):
    name = os.path.basename(d)
    rp = os.path.join(d, 'result.json')
    if name not in DESC or not os.path.exists(rp):
        continue
    txt = open(rp).read()
    try:
        r = json.loads(txt[txt.index('{\n "name"'):])
    except Exception:
        continue
    pid, what, needs = DESC[name]
    caught = {k: v['rc'] == 1 for k, v in r.get('checks', {}).items()}
    meta = dict(id=name, breaks_property=pid, change=what, needs_to_manifest=needs,
                written_by='independent sub-agent given only the property text and a private worktree',
                confirmed=dict(pinned_suite=r.get('pytest'), demo_on_clean_tree_exit=r.get('demo_clean_rc'), demo_with_change_exit=r.get('demo_patched_rc'),
                               patch_applies=r.get('apply_rc') == 0),
                ran=[f"tools/seedcheck.py {name} seeded/{name}/patch.diff seeded/{name}/demo.py {','.join(r.get('props', []))} --tier {r.get('tier')}"],
                caught_by={k: dict(caught=v, first_keys=r['checks'][k]['keys'][:3]) for k, v in caught.items()},
                history=HISTORY.get(name, 'caught by the checks as they were when the change was first evaluated'))
    json.dump(meta, open(os.path.join(d, 'meta.json'), 'w'), indent=1)
    print(name, caught)
