#!/usr/bin/env python3
"""Evaluate one seeded change: tools/seedcheck.py <name> <patch.diff> <demo.py> <PROP>[,<PROP>...] [--tier quick|thorough]

In a private scratch worktree of /repo: (1) demo passes on the clean tree; (2) the patch applies; (3) the pinned suite still
reports 609 passed; (4) the demo fails with the patch; (5) each listed check, run against the patched tree through PYTHONPATH,
reports a VIOLATION (exit 1).  Nothing is ever applied to /repo itself.  Prints a JSON summary; the worktree is removed."""
import json
import os
import re
import subprocess
import sys
import tempfile
import time

VERIF = os.path.dirname(os.path.dirname(os.path.abspath(__file__)))


def sh(cmd, cwd=None, env=None, timeout=3600):
    p = subprocess.run(cmd, shell=isinstance(cmd, str), cwd=cwd, env=env, capture_output=True, text=True, timeout=timeout)
    return p.returncode, p.stdout + p.stderr


def main():
    name, patch, demo, props = sys.argv[1:5]
    tier = 'quick'
    if '--tier' in sys.argv:
        tier = sys.argv[sys.argv.index('--tier') + 1]
    wt = tempfile.mkdtemp(prefix=f'sc-{name}-')
    os.rmdir(wt)
    out = dict(name=name, props=props.split(','), tier=tier)
    rc, o = sh(['git', '-C', '/repo', 'worktree', 'add', '-q', wt, 'HEAD'])
    assert rc == 0, o
    try:
        env = dict(os.environ); env['PYTHONPATH'] = wt
        stub = os.path.join(VERIF, 'tools')
        env['PATH'] = stub + os.pathsep + env['PATH']
        demo_src = open(demo).read()
        # demos refer to their own worktree path (/tmp/seed-XXX): rewrite to this scratch worktree
        m = re.search(r'/tmp/seed-C\d+', demo_src)
        demo_run = os.path.join(wt, '_demo.py')
        src = demo_src
        if m:
            src = re.sub(re.escape(m.group(0)) + r'(?![-\w])', wt, demo_src)
        with open(demo_run, 'w') as f:
            f.write(src)
        rc, o = sh(['/venv/bin/python', '-W', 'ignore', demo_run], cwd=wt, env=env, timeout=900)
        out['demo_clean_rc'] = rc
        if rc != 0:
            out['demo_clean_tail'] = o[-600:]
        rc, o = sh(['git', 'apply', os.path.abspath(patch)], cwd=wt)
        if rc != 0:     # the tree moved on since the change was written (fix commits): fall back to a 3-way merge
            rc, o = sh(['git', 'apply', '--3way', os.path.abspath(patch)], cwd=wt)
            out['applied_3way'] = True
        out['apply_rc'] = rc
        if rc != 0:
            out['apply_err'] = o[-400:]
            print(json.dumps(out, indent=1)); return 2
        # what the demonstration left behind in the worktree (an emitted library with its own tests) must not be collected
        sh(['git', 'clean', '-fdxq', '-e', '_demo.py'], cwd=wt)
        e2 = dict(os.environ); e2.pop('PYTHONPATH', None); e2.pop('GAPIC_GENERATOR_VERIF', None)
        rc, o = sh('/venv/bin/python -m pytest -q -p no:cacheprovider --timeout=900 --continue-on-collection-errors 2>&1 | tail -1', cwd=wt, env=e2, timeout=1800)
        out['pytest'] = o.strip()[-80:]
        rc, o = sh(['/venv/bin/python', '-W', 'ignore', demo_run], cwd=wt, env=env, timeout=900)
        out['demo_patched_rc'] = rc
        out['demo_patched_tail'] = o.strip()[-300:]
        os.remove(demo_run)
        out['checks'] = {}
        for pid in out['props']:
            t0 = time.time()
            env3 = dict(os.environ); env3['PYTHONPATH'] = wt
            env3['VERIF_EVIDENCE_DIR'] = os.path.join(wt, '_evidence'); env3['VERIF_REPLAY_DIR'] = os.path.join(wt, '_replays')
            rc, o = sh([os.path.join(VERIF, 'check'), pid, '--tier', tier], cwd=VERIF, env=env3, timeout=7200)
            keys = re.findall(r'^\s+key=(.*)$', o, re.M)
            out['checks'][pid] = dict(rc=rc, violations=o.count('VIOLATION property='), keys=keys[:6], wall=round(time.time() - t0, 1),
                                      tail=o.strip().splitlines()[-1][-200:] if o.strip() else '')
    finally:
        sh(['git', '-C', '/repo', 'worktree', 'remove', '--force', wt])
        sh(['git', '-C', '/repo', 'worktree', 'prune'])
    print(json.dumps(out, indent=1))
    caught = any(v['rc'] == 1 for v in out['checks'].values())
    return 0 if caught else 1


if __name__ == '__main__':
    sys.exit(main())
