#!/usr/bin/env python3
"""Prints the markdown table of DESIGN 12.5 from seeded/*/meta.json (run tools/seedmeta.py first)."""
import glob, json, os, re
VERIF = os.path.dirname(os.path.dirname(os.path.abspath(__file__)))
rows = []
for p in sorted(glob.glob(os.path.join(VERIF, 'seeded', '*', 'meta.json')), key=lambda x: (re.findall(r'C(\d+)-(\d+)', x)[0])):
    m = json.load(open(p))
    caught = [k for k, v in m['caught_by'].items() if v['caught']]
    hist = m['history']
    first = 'yes' if hist.startswith('caught by the checks as they were') else ('other check' if hist.startswith('caught by') else 'after strengthening')
    if not caught:
        first = 'no'
    rows.append((m['id'], m['change'], ', '.join(caught) or 'NOT CAUGHT', first, '' if first == 'yes' else hist))
import io, sys
out = io.StringIO()
_print = print
def print(*a):
    _print(*a, file=out)
print('| seed | change (what it breaks) | caught by | at first? | what was added |')
print('|---|---|---|---|---|')
for r in rows:
    print('| ' + ' | '.join(x.replace('|', '\\|') for x in r) + ' |')
n = len(rows)
print()
print(f'{n} seeded changes; caught as the checks stood: {sum(1 for r in rows if r[3] == "yes")}; by another property\'s check: '
      f'{sum(1 for r in rows if r[3] == "other check")}; after the specification / input space was extended: {sum(1 for r in rows if r[3] == "after strengthening")}; '
      f'not caught: {sum(1 for r in rows if r[2] == "NOT CAUGHT")}.')

text = out.getvalue()
if '--write' in sys.argv:
    d = os.path.join(VERIF, 'DESIGN.md')
    s = open(d).read()
    a, b = s.index('<!-- seedtable:begin -->') + len('<!-- seedtable:begin -->'), s.index('<!-- seedtable:end -->')
    open(d, 'w').write(s[:a] + '\n' + text + s[b:])
else:
    sys.stdout.write(text)
