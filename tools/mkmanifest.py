#!/usr/bin/env python3
"""Regenerates /verif/MANIFEST.json from the table below (one entry per property that has a check)."""
import json, os, subprocess

HERE = os.path.dirname(os.path.abspath(__file__))
VERIF = os.path.dirname(HERE)

MC = 'model_checking'
CHECKS = {
    'C07': dict(
        level=MC, design='4 C07',
        technique='TLA+ spec Pager.tla model-checked by TLC; TLC-enumerated server histories replayed through the emitted '
                  'sync/asyncio pagers; recorded traces validated against PagerTrace.tla',
        text='TLC checks the Pager specification (every item once, order, token threading, unchanged request/options, stop at '
             'first empty token, exposed attributes, termination) over all server histories within the bound; every history is '
             'replayed through the real emitted pagers behind a loopback gRPC server and every recorded step is validated '
             'against the specification (refinement on all explored inputs).',
        note='bounded histories (quick: <=4 pages x <=2 items; thorough: <=5 x <=3); carrier API with three item kinds; '
             'trusted: TLC, loopback grpc, projection by input descriptors'),
}

NOT_YET = 'check not built yet in this round (specification planned in DESIGN.md section 4)'


def main():
    props = [json.loads(l) for l in open(os.path.join(VERIF, 'properties.jsonl'))]
    hooks_commits = []
    try:
        out = subprocess.run(['git', '-C', '/repo', 'log', '--format=%h %s'], capture_output=True, text=True).stdout
        hooks_commits = [l.split()[0] for l in out.splitlines() if l.split(' ', 1)[1].startswith('verif-hook:')]
    except Exception:
        pass
    man = dict(
        version=1,
        setup_cmd='/verif/setup.sh',
        hooks=dict(
            guard='GAPIC_GENERATOR_VERIF',
            enable='set GAPIC_GENERATOR_VERIF=<path of ndjson trace file> in the environment of the generator process; '
                   'checks import gapic from /repo (editable install), no build step',
            baseline_off_cmd='cd /repo && env -u GAPIC_GENERATOR_VERIF /venv/bin/python -m pytest -ra -q -p no:cacheprovider '
                             '--timeout=900 --continue-on-collection-errors --junitxml=/tmp/verif-baseline-off.junit.xml',
            source_commits=hooks_commits,
            add_only=True),
        engines=[dict(name='tlc', path='/usr/local/bin/tlc', serves_properties=sorted(CHECKS),
                      kind_free_text='explicit-state model checker for the TLA+ specifications under /verif/spec; also '
                                     'validates batches of traces recorded from the implementation'),
                 dict(name='harness', path='/verif/harness', serves_properties=sorted(CHECKS),
                      kind_free_text='abstract API -> descriptors -> real generator -> emitted library behind loopback '
                                     'servers; projections; replay of TLC cases; trace recording')],
        checks=[], not_applicable=[],
        notes='See DESIGN.md. ./check <id> --tier quick|thorough; exit 0 ok, 1 violation, 2 machinery failure.')
    for p in props:
        pid = p['id']
        c = CHECKS.get(pid)
        if not c:
            man['not_applicable'].append(dict(property_id=pid, reason=NOT_YET))
            continue
        man['checks'].append(dict(
            property_id=pid,
            quick_cmd=f'./check {pid} --tier quick',
            thorough_cmd=f'./check {pid} --tier thorough',
            evidence_file=f'/verif/evidence/{pid}.json',
            replay_cmd_template=f'./check {pid} --replay {{path}}',
            engine='tlc',
            level_claimed=dict(category=c['level'], text=c['text'], design_ref=c['design']),
            level_note=c['note'],
            technique=c['technique']))
    with open(os.path.join(VERIF, 'MANIFEST.json'), 'w') as f:
        json.dump(man, f, indent=1)
    print('checks:', [c['property_id'] for c in man['checks']])


if __name__ == '__main__':
    main()
