#!/bin/bash
# usage: tools/seedbatch.sh "<name> <patch> <demo> <props>" ...   (runs sequentially; stores under /verif/seeded/<name>/)
cd /verif
for spec in "$@"; do
  set -- $spec
  name=$1; patch=$2; demo=$3; props=$4
  mkdir -p seeded/$name
  [ "$patch" != "seeded/$name/patch.diff" ] && cp "$patch" seeded/$name/patch.diff
  cp "$demo" seeded/$name/demo.py
  python3 tools/seedcheck.py $name seeded/$name/patch.diff seeded/$name/demo.py $props > seeded/$name/result.json 2>&1
done
