#!/bin/bash
# usage: tools/seedin.sh <PROP> <n1> <n2> [<checks>]  - take change1/2 + demo1/2 + notes from /tmp/seed-<PROP>-work2 as seeds <PROP>-<n1>, <PROP>-<n2>
# and evaluate them (serialised with other evaluations by a lock; results in seeded/<name>/result.json)
cd /verif
P=$1; W=/tmp/seed-$P-work${ROUND:-2}; checks=${4:-$P}
for k in 1 2; do
  n=$([ $k = 1 ] && echo $2 || echo $3)
  mkdir -p seeded/$P-$n
  cp $W/change$k.diff seeded/$P-$n/patch.diff; cp $W/demo$k.py seeded/$P-$n/demo.py; cp $W/notes.md seeded/$P-$n/notes.md 2>/dev/null
done
nohup flock /tmp/seed-eval${LANE:-}.lock tools/seedbatch.sh "$P-$2 seeded/$P-$2/patch.diff seeded/$P-$2/demo.py $checks" "$P-$3 seeded/$P-$3/patch.diff seeded/$P-$3/demo.py $checks" > /tmp/seedin-$P.log 2>&1 &
