"""tools/seed_prompt.py <ID>  - prints the brief given to an independent seeding sub-agent: ONLY the property text, the
private worktree path /tmp/seed-<ID> and environment facts; nothing from /verif."""
import sys, json, os
pid=sys.argv[1]
rnd=int(sys.argv[sys.argv.index("--round")+1]) if "--round" in sys.argv else 1
work=f"/tmp/seed-{pid}-work" + ("" if rnd == 1 else str(rnd))
_p=[json.loads(l) for l in open(os.path.join(os.path.dirname(os.path.dirname(os.path.abspath(__file__))),'properties.jsonl')) if json.loads(l)['id']==pid][0]
prop=f"{_p['id']}: {_p['title']}\n\nStatement: {_p['statement']}\n\nQuantified over: {_p['quantifier']['text']}\n"
print(f"""You are a careful adversarial engineer. The repository googleapis/gapic-generator-python (a protoc plugin that builds a schema model from protobuf descriptors and renders Jinja templates into Python GAPIC client libraries) is checked out for you as a private scratch git worktree at /tmp/seed-{pid} (work ONLY there; never touch /repo, /verif or any other directory except /tmp/seed-{pid} and a scratch directory {work} that you may create).

Here is a semantic property of this code base that is supposed to hold:

{prop}
YOUR TASK: produce TWO independent, realistic code changes (bugs) to the generator (its Python sources under gapic/ or its templates under gapic/templates or gapic/ads-templates) such that EACH change, applied alone:
  1. breaks the property above (for some input in its quantifier);
  2. still "compiles" and keeps the repository's pinned test-suite green: run `cd /tmp/seed-{pid} && /venv/bin/python -m pytest -q -p no:cacheprovider --timeout=900 --continue-on-collection-errors` — the expected baseline is `609 passed, 30 errors` (the 30 errors are pre-existing environment errors; the count of passed tests must stay 609 and no new failure may appear);
  3. is SUBTLE: it needs something specific to manifest — an unusual but legitimate input, a particular combination of two features/options, a multi-step sequence (e.g. only on the third page / second retry / second call), one of several code paths only (e.g. only the asyncio client, only REST, only the alternative 'ads' template set), or two cooperating edits that each look harmless alone. Do NOT produce changes that ordinary use of a typical API would expose at once (e.g. breaking every generated client). Prefer changes a plausible refactoring or "optimisation" commit could introduce.
For each change also write a DEMONSTRATION: a small self-contained Python program (run with /venv/bin/python) that exits 0 on the unmodified worktree and exits non-zero (with a clear message) when the change is applied. The demonstration must exercise the real code (build an API description programmatically, run the real generator, and where the property is about the emitted library, import/execute the emitted code), not just grep the source.

ENVIRONMENT FACTS (sealed sandbox, no network):
- /venv/bin/python (3.12) has the repo installed in editable mode from /repo; to make `import gapic` resolve to YOUR worktree run programs with `PYTHONPATH=/tmp/seed-{pid}` (PYTHONPATH precedes the editable install) — check `gapic.__file__` in your demonstration and abort if it is not under /tmp/seed-{pid}.
- There is NO protoc: build `google.protobuf.descriptor_pb2.FileDescriptorProto` objects in Python and a `plugin_pb2.CodeGeneratorRequest` (proto_file must list dependencies before dependents; the descriptors of google/api/*.proto, google/protobuf/*.proto, google/longrunning/operations.proto, google/rpc/status.proto can be copied from the installed *_pb2 modules with `module.DESCRIPTOR.CopyToProto(fdp)`; annotations are set through `options.Extensions[...]`, e.g. `annotations_pb2.http`, `client_pb2.method_signature`, `client_pb2.default_host`, `resource_pb2.resource`, `routing_pb2.routing`, `field_behavior_pb2.field_behavior`, `operations_pb2.operation_info`). Run the generator in-process with `from gapic.cli import generate; out = io.BytesIO(); generate.generate.callback(request=io.BytesIO(req.SerializeToString()), output=out)` and parse `plugin_pb2.CodeGeneratorResponse.FromString(out.getvalue())`; write the files to a temp dir and import the package from there. The repository's own unit tests (tests/unit, test_utils/test_utils.py) show how schema objects can be built directly as an alternative.
- There is NO pandoc: comments containing any of | * ` _ [ ] (and every API with a long-running method) make the generator shell out to pandoc. Put a stub first on PATH: an executable file named `pandoc` that prints "pandoc 2.19.2" for `--version` and otherwise copies stdin to stdout.
- Emitted libraries run against the installed google-api-core / proto-plus / grpcio; a loopback `grpc.server` with a `grpc.GenericRpcHandler` on 127.0.0.1:0 or an `http.server` works for executing emitted clients (REST transport: `XRestTransport(host="127.0.0.1:PORT", url_scheme="http", credentials=google.auth.credentials.AnonymousCredentials())`).
- Generation takes ~1 s; keep each demonstration under ~60 s.

DELIVERABLES (write them under {work}/):
  change1.diff, change2.diff   — `git diff` output relative to the worktree HEAD, each applying cleanly with `git apply` on a clean worktree;
  demo1.py, demo2.py           — the demonstrations (each must pass on the clean worktree and fail with its change);
  notes.md                     — for each change: what it breaks, what it needs in order to manifest, how you verified (commands + observed results incl. the pytest summary line).
Leave the worktree CLEAN at the end (`git -C /tmp/seed-{pid} checkout -- . && git -C /tmp/seed-{pid} status --short` prints nothing). Do not commit anything. In your final answer give a 10-line summary of the two changes.""")

if rnd > 1:
    sys.path.insert(0, os.path.dirname(os.path.abspath(__file__)))
    import seedmeta
    prior = [v[1] for k, v in sorted(seedmeta.DESC.items()) if k.startswith(pid + '-')]
    print(f"""

ROUND {rnd} - ADDITIONAL CONSTRAINTS. Other engineers already produced these changes for this property; do NOT repeat them or close variants:
""" + "".join(f"  - {p}\n" for p in prior) + f"""Produce two changes of a DIFFERENT KIND from those and from each other. Prefer, in this order: (a) a fault that needs a multi-step history to show (state carried between calls/pages/attempts, a second instance, a cache, an order of events); (b) two cooperating edits in DIFFERENT files that each look harmless alone; (c) a fault confined to a less-travelled configuration that the property still covers (the alternative `ads-templates` set selected with the plugin options `python-gapic-templates=ads-templates,old-naming`; the REST transport; the asyncio client; numeric enums; a service YAML; a dependency-package type; proto3 optional / oneof / map fields; unusual but legal proto names); (d) an off-by-one or boundary condition (empty, zero, last element). The pandoc stub must also answer `--list-input-formats` and `--list-output-formats`. `gapic` is a namespace package: check `gapic.schema.wrappers.__file__` rather than `gapic.__file__`. Write the deliverables under {work}/ (not another directory).""")
