import sys, yaml, json, subprocess, os, traceback, shutil
sys.path.insert(0, '/tmp/feas')
import build
from exp1 import base
from exp2 import svc, M
from concurrent.futures import ProcessPoolExecutor
def yaml_for(kind):
    y = {"type": "google.api.Service", "config_version": 3, "name": "lib.example.com", "apis": [{"name": "acme.lib.v1.Library"}]}
    if "mixins" in kind:
        y["apis"] += [{"name": "google.longrunning.Operations"}, {"name": "google.cloud.location.Locations"}, {"name": "google.iam.v1.IAMPolicy"}]
        y["http"] = {"rules": [
            {"selector": "google.longrunning.Operations.GetOperation", "get": "/v1/{name=operations/*}"},
            {"selector": "google.longrunning.Operations.ListOperations", "get": "/v1/{name=shelves/*}/operations"},
            {"selector": "google.longrunning.Operations.CancelOperation", "post": "/v1/{name=operations/*}:cancel", "body": "*"},
            {"selector": "google.longrunning.Operations.DeleteOperation", "delete": "/v1/{name=operations/*}"},
            {"selector": "google.longrunning.Operations.WaitOperation", "post": "/v1/{name=operations/*}:wait", "body": "*"},
            {"selector": "google.cloud.location.Locations.GetLocation", "get": "/v1/{name=projects/*/locations/*}"},
            {"selector": "google.cloud.location.Locations.ListLocations", "get": "/v1/{name=projects/*}/locations"},
            {"selector": "google.iam.v1.IAMPolicy.GetIamPolicy", "get": "/v1/{resource=shelves/*}:getIamPolicy"},
            {"selector": "google.iam.v1.IAMPolicy.SetIamPolicy", "post": "/v1/{resource=shelves/*}:setIamPolicy", "body": "*"},
            {"selector": "google.iam.v1.IAMPolicy.TestIamPermissions", "post": "/v1/{resource=shelves/*}:testIamPermissions", "body": "*"}]}
    if "partial" in kind:
        y["apis"] += [{"name": "google.longrunning.Operations"}, {"name": "google.iam.v1.IAMPolicy"}]
        y["http"] = {"rules": [{"selector": "google.longrunning.Operations.GetOperation", "get": "/v1/{name=operations/*}"},
                               {"selector": "google.iam.v1.IAMPolicy.SetIamPolicy", "post": "/v1/{resource=shelves/*}:setIamPolicy", "body": "*"}]}
    ps = {}
    if "asyncrest" in kind: ps["experimental_features"] = {"rest_async_io_enabled": True}
    if "autopop" in kind: y.setdefault("publishing", {})["method_settings"] = [{"selector": "acme.lib.v1.Library.CreateBook", "auto_populated_fields": ["request_id"]}]
    if ps: y.setdefault("publishing", {})["library_settings"] = [{"version": "acme.lib.v1", "python_settings": ps}]
    return y
CASES = [("plain", "transport=grpc+rest", None), ("mixins", "transport=grpc+rest", "mixins"), ("mixins-rest", "transport=rest", "mixins"), ("mixins-grpc", "transport=grpc", "mixins"), ("partial", "transport=grpc+rest", "partial"),
         ("asyncrest", "transport=grpc+rest", "asyncrest"), ("asyncrest-mixins", "transport=rest", "asyncrest,mixins"), ("autopop", "transport=grpc+rest", "autopop"),
         ("iam-legacy", "transport=grpc+rest,add-iam-methods", None), ("iam-legacy-grpc", "transport=grpc,add-iam-methods", None),
         ("ads-grpc", "python-gapic-templates=ads-templates,old-naming,transport=grpc", None), ("ads-rest", "python-gapic-templates=ads-templates,old-naming,transport=grpc+rest", None), ("ads-mixins", "python-gapic-templates=ads-templates,old-naming,transport=grpc", "mixins"),
         ("numeric-mixins", "transport=rest,rest-numeric-enums", "mixins"), ("nosnip", "transport=grpc+rest,autogen-snippets=false", None), ("metadata", "transport=grpc+rest,metadata", "mixins,autopop")]
def run(c):
    name, opts, kind = c
    a = base(); M(a, "CreateBookRequest")["fields"].append({"name": "request_id", "uuid4": True})
    if kind:
        p = f"/tmp/feas/y_{name}.yaml"; open(p, "w").write(yaml.safe_dump(yaml_for(kind))); opts += f",service-yaml={p}"
    root = f"/tmp/feas/c13/{name}"
    try: res = build.generate(build.build_request(a, opts))
    except Exception as e: return name, "GEN", type(e).__name__ + ": " + str(e).replace("\n", " ")[:200]
    build.materialise(res, root)
    r = subprocess.run([sys.executable, '-m', 'pytest', '-q', '-p', 'no:cacheprovider', 'tests/unit', '--tb=line', '-x'], cwd=root, capture_output=True, text=True)
    tail = [l for l in r.stdout.strip().splitlines() if "passed" in l or "failed" in l or "rror" in l or l.startswith("/")]
    shutil.rmtree(root, ignore_errors=True)
    return name, r.returncode, " | ".join(tail[-3:])[:400]
if __name__ == "__main__":
    with ProcessPoolExecutor(16) as ex:
        for name, rc, out in ex.map(run, CASES): print(f"{name:18s} rc={rc} {out}")
