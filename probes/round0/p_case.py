import sys, subprocess
sys.path.insert(0, '/tmp/feas')
import build
for fn in ["MyFile", "my_file", "my.file", "My.File", "libV2"]:
    api = {"files": [{"name": f"acme/cs/v1/{fn}.proto", "package": "acme.cs.v1", "deps": ["google/api/client.proto"], "messages": [{"name": "Req", "fields": [{"name": "name"}]}],
              "services": [{"name": "Svc", "methods": [{"name": "Do", "in": "Req", "out": "Req"}]}]}]}
    res = build.generate(build.build_request(api, "transport=grpc,autogen-snippets=false")); build.materialise(res, "/tmp/feas/cs")
    r = subprocess.run([sys.executable, "-c", "import sys; sys.path.insert(0,'/tmp/feas/cs'); import acme.cs_v1"], capture_output=True, text=True)
    print(fn, [f.name for f in res.file if "/types/" in f.name and "__init__" not in f.name], "import:", "ok" if r.returncode == 0 else r.stderr.strip().splitlines()[-1][:150])
