import sys, yaml, itertools, subprocess, json, shutil, collections
sys.path.insert(0, '/tmp/feas')
import build
from concurrent.futures import ProcessPoolExecutor
def api16():
    msgs = [
      {"name": "A", "fields": [{"name": "name"}, {"name": "b", "type": "B"}, {"name": "kind", "type": "enum:Kind"}]},
      {"name": "B", "fields": [{"name": "c", "type": "C"}, {"name": "bs", "type": "B", "repeated": True}]},
      {"name": "C", "fields": [{"name": "x"}, {"name": "tags", "type": "map:string,D"}]},
      {"name": "D", "fields": [{"name": "y"}]},
      {"name": "Res", "resource": {"type": "ex.com/Res", "patterns": ["res/{res}"]}, "fields": [{"name": "name"}, {"name": "e", "type": "E"}]},
      {"name": "E", "fields": [{"name": "z"}]},
      {"name": "ReqA", "fields": [{"name": "name"}, {"name": "a", "type": "A"}]},
      {"name": "ReqRef", "fields": [{"name": "res", "ref": "ex.com/Res"}]},
      {"name": "ReqLro", "fields": [{"name": "name"}]}, {"name": "LroResp", "fields": [{"name": "d", "type": "D"}]}, {"name": "LroMeta", "fields": [{"name": "k2", "type": "enum:Kind2"}]},
      {"name": "ReqList", "fields": [{"name": "parent"}, {"name": "page_size", "type": "int32"}, {"name": "page_token"}]}, {"name": "RespList", "fields": [{"name": "es", "type": "E", "repeated": True}, {"name": "next_page_token"}]},
      {"name": "Unused", "fields": [{"name": "u"}]},
    ]
    enums = [{"name": "Kind", "values": ["KIND_UNSPECIFIED", "K1"]}, {"name": "Kind2", "values": ["KIND2_UNSPECIFIED", "K2"]}, {"name": "UnusedEnum", "values": ["UNUSED_ENUM_UNSPECIFIED"]}]
    M = lambda n, i, o, **k: dict({"name": n, "in": i, "out": o, "http": [{"verb": "post", "uri": f"/v1/{n.lower()}", "body": "*"}]}, **k)
    return {"files": [{"name": "acme/sel/v1/sel.proto", "package": "acme.sel.v1", "messages": msgs, "enums": enums,
            "services": [{"name": "S1", "methods": [M("GetA", "ReqA", "A"), M("UseRef", "ReqRef", "D"), M("RunLro", "ReqLro", "google.longrunning.Operation", lro={"resp": "LroResp", "meta": "LroMeta"})]},
                         {"name": "S2", "methods": [M("ListE", "ReqList", "RespList"), M("Other", "ReqA", "D")]}]}]}
REACH = {"GetA": {"ReqA", "A", "B", "C", "D", "Kind"}, "UseRef": {"ReqRef", "D", "Res", "E"}, "RunLro": {"ReqLro", "LroResp", "LroMeta", "D", "Kind2"}, "ListE": {"ReqList", "RespList", "E"}, "Other": {"ReqA", "A", "B", "C", "D", "Kind"}}
SVC = {"GetA": "S1", "UseRef": "S1", "RunLro": "S1", "ListE": "S2", "Other": "S2"}
ALLT = {"A", "B", "C", "D", "Res", "E", "ReqA", "ReqRef", "ReqLro", "LroResp", "LroMeta", "ReqList", "RespList", "Unused", "Kind", "Kind2", "UnusedEnum"}
def run(sub):
    i = abs(hash(sub)) % 100000
    yml = {"type": "google.api.Service", "config_version": 3, "name": "sel.example.com", "apis": [{"name": "acme.sel.v1.S1"}],
           "publishing": {"library_settings": [{"version": "acme.sel.v1", "python_settings": {"common": {"selective_gapic_generation": {"methods": [f"acme.sel.v1.{SVC[m]}.{m}" for m in sub]}}}}]}}
    p = f"/tmp/feas/sel_{i}.yaml"; open(p, "w").write(yaml.safe_dump(yml))
    try: res = build.generate(build.build_request(api16(), f"transport=grpc+rest,autogen-snippets=false,service-yaml={p}"))
    except Exception as e: return sub, ["GEN " + type(e).__name__ + " " + str(e)[:100]]
    root = f"/tmp/feas/sel/{i}"; build.materialise(res, root)
    code = "import sys, json; sys.path.insert(0, %r); from acme import sel_v1 as m\nimport proto\nout = {'types': sorted(n for n in dir(m) if isinstance(getattr(m, n), type) and (issubclass(getattr(m, n), proto.Message) or issubclass(getattr(m, n), proto.Enum))), 'clients': sorted(n for n in dir(m) if n.endswith('Client'))}\nbad = []\nfor n in out['types']:\n    c = getattr(m, n)\n    if issubclass(c, proto.Message):\n        try: c.serialize(c())\n        except Exception as e: bad.append((n, repr(e)[:80]))\nout['bad'] = bad\nfor cl in out['clients']:\n    out[cl] = sorted(x for x in dir(getattr(m, cl)) if not x.startswith('_') and x in ('get_a','use_ref','run_lro','list_e','other'))\nprint(json.dumps(out))" % root
    r = subprocess.run([sys.executable, "-c", code], capture_output=True, text=True); shutil.rmtree(root, ignore_errors=True)
    if r.returncode: return sub, ["IMPORT " + r.stderr.strip().splitlines()[-1][:150]]
    out = json.loads(r.stdout.strip().splitlines()[-1])
    want = set().union(*(REACH[m] for m in sub)); diffs = []
    if set(out["types"]) != want: diffs.append(("types", "missing", sorted(want - set(out["types"])), "extra", sorted(set(out["types"]) - want)))
    if out["bad"]: diffs.append(("uninstantiable", out["bad"]))
    svcs = {SVC[m] for m in sub}
    if set(out["clients"]) != {f"{s}{k}" for s in svcs for k in ("Client", "AsyncClient")}: diffs.append(("clients", out["clients"]))
    import re
    for s in svcs:
        wantm = sorted(re.sub(r'(?<!^)(?=[A-Z])', '_', m).lower() for m in sub if SVC[m] == s)
        if out.get(f"{s}Client") != wantm: diffs.append(("methods", s, out.get(f"{s}Client"), wantm))
    return sub, diffs
if __name__ == "__main__":
    subs = [s for r in range(1, 6) for s in itertools.combinations(sorted(REACH), r)]
    bad = 0
    with ProcessPoolExecutor(16) as ex:
        for sub, diffs in ex.map(run, subs):
            if diffs: bad += 1; print(sub, json.dumps(diffs)[:400])
    print(len(subs), "subsets;", bad, "with differences")
