import json, sys, copy, time, traceback, os
sys.path.insert(0, '/tmp/feas')
import build
from exp1 import base
from concurrent.futures import ProcessPoolExecutor

def svc(api): return api["files"][0]["services"][0]
def msgs(api): return api["files"][0]["messages"]
def M(api, name): return next(m for m in msgs(api) if m["name"] == name)

V = {}
def variant(f): V[f.__name__] = f; return f

@variant
def path_not_in_sig(a):  # http path field not covered by the flattened signature
    svc(a)["methods"][0]["sigs"] = []
@variant
def sig_partial(a):
    svc(a)["methods"][1]["sigs"] = ["book"]
@variant
def required_scalars_query(a):
    M(a, "GetBookRequest")["fields"] += [{"name": "f_int", "type": "int32", "required": True}, {"name": "f_dbl", "type": "double", "required": True},
        {"name": "f_bool", "type": "bool", "required": True}, {"name": "f_bytes", "type": "bytes", "required": True},
        {"name": "f_u64", "type": "uint64", "required": True}, {"name": "f_enum", "type": "enum:Genre", "required": True},
        {"name": "f_msg", "type": "Shelf", "required": True}, {"name": "f_rep", "repeated": True, "required": True}]
@variant
def int_path_var(a):
    M(a, "GetBookRequest")["fields"] += [{"name": "rev", "type": "int32", "required": True}]
    svc(a)["methods"][0]["http"] = [{"verb": "get", "uri": "/v1/{name=shelves/*/books/*}/revs/{rev}"}]
    svc(a)["methods"][0]["sigs"] = ["name,rev"]
@variant
def enum_path_var(a):
    M(a, "GetBookRequest")["fields"] += [{"name": "genre", "type": "enum:Genre", "required": True}]
    svc(a)["methods"][0]["http"] = [{"verb": "get", "uri": "/v1/{name=shelves/*/books/*}/genres/{genre}"}]
    svc(a)["methods"][0]["sigs"] = ["name,genre"]
@variant
def additional_bindings(a):
    svc(a)["methods"][0]["http"] += [{"verb": "get", "uri": "/v1/{name=archives/*/books/*}"}]
@variant
def explicit_routing(a):
    svc(a)["methods"][0]["routing"] = [{"field": "name", "tmpl": "{shelf=shelves/*}/books/*"}, {"field": "name"}]
@variant
def keyword_method(a):
    svc(a)["methods"].append({"name": "Import", "in": "GetBookRequest", "out": "Book", "http": [{"verb": "get", "uri": "/v1/{name=shelves/*/books/*}:imp"}], "sigs": ["name"]})
@variant
def reserved_fields(a):
    M(a, "GetBookRequest")["fields"] += [{"name": "class"}, {"name": "type"}, {"name": "format"}]
    svc(a)["methods"][0]["sigs"] = ["name,class,type"]
@variant
def reserved_path_var(a):
    M(a, "GetBookRequest")["fields"] = [{"name": "class", "required": True}]
    svc(a)["methods"][0]["http"] = [{"verb": "get", "uri": "/v1/{class=shelves/*/books/*}"}]
    svc(a)["methods"][0]["sigs"] = ["class"]
    svc(a)["methods"][3]["in"] = "DeleteBookRequest"
@variant
def empty_request(a):
    svc(a)["methods"].append({"name": "Ping", "in": "google.protobuf.Empty", "out": "google.protobuf.Empty", "http": [{"verb": "get", "uri": "/v1/ping"}]})
@variant
def foreign_request_flattened(a):
    svc(a)["methods"].append({"name": "GetOp", "in": "google.longrunning.GetOperationRequest", "out": "google.longrunning.Operation", "http": [{"verb": "get", "uri": "/v1/{name=operations/*}"}], "sigs": ["name"]})
@variant
def recursive_msg(a):
    M(a, "Book")["fields"] += [{"name": "sequel", "type": "Book"}, {"name": "chapters", "type": "Book", "repeated": True}]
@variant
def map_of_msgs(a):
    M(a, "Book")["fields"] += [{"name": "shelves_by", "type": "map:string,Shelf"}, {"name": "genre_by", "type": "map:int32,enum:Genre"}]
@variant
def paged_map(a):
    M(a, "ListBooksResponse")["fields"] = [{"name": "books", "type": "map:string,Book"}, {"name": "next_page_token"}]
@variant
def paged_scalar(a):
    M(a, "ListBooksResponse")["fields"] = [{"name": "names", "repeated": True}, {"name": "next_page_token"}]
@variant
def body_primitive(a):
    svc(a)["methods"][1]["http"] = [{"verb": "post", "uri": "/v1/{parent=shelves/*}/books", "body": "book_id"}]
@variant
def no_http(a):
    for m in svc(a)["methods"]: m.pop("http", None)
@variant
def two_services(a):
    a["files"][0]["services"].append({"name": "Admin", "methods": [{"name": "GetShelf", "in": "GetBookRequest", "out": "Shelf", "http": [{"verb": "get", "uri": "/v1/{name=shelves/*}"}], "sigs": ["name"]}]})
@variant
def deep_path(a):
    M(a, "UpdateBookRequest")["fields"] = [{"name": "wrapper", "type": "CreateBookRequest"}]
    svc(a)["methods"][2]["http"] = [{"verb": "patch", "uri": "/v1/{wrapper.book.name=shelves/*/books/*}", "body": "wrapper"}]
    svc(a)["methods"][2]["sigs"] = ["wrapper"]
@variant
def wellknown_fields(a):
    M(a, "Book")["fields"] += [{"name": "ts", "type": "google.protobuf.Timestamp"}, {"name": "dur", "type": "google.protobuf.Duration"},
        {"name": "anyf", "type": "google.protobuf.Any"}, {"name": "st", "type": "google.protobuf.Struct"}, {"name": "val", "type": "google.protobuf.Value"},
        {"name": "wi", "type": "google.protobuf.Int32Value"}, {"name": "status", "type": "google.rpc.Status"}]
@variant
def oneof_msg(a):
    M(a, "CreateBookRequest")["fields"] += [{"name": "src_shelf", "type": "Shelf", "oneof": "src"}, {"name": "src_uri", "oneof": "src"}]
@variant
def optional_in_sig(a):
    M(a, "GetBookRequest")["fields"] += [{"name": "view", "type": "int32", "optional": True}]
    svc(a)["methods"][0]["sigs"] = ["name,view"]
@variant
def deprecated_method(a):
    svc(a)["methods"][0]["deprecated"] = True

def run(name_opts):
    name, opts = name_opts
    a = base(); V[name](a)
    root = f"/tmp/feas/v/{name}_{abs(hash(opts))%1000}"
    try:
        res = build.generate(build.build_request(a, opts))
    except Exception as e:
        return name, opts, "GEN-ERROR", traceback.format_exc()[-600:]
    build.materialise(res, root)
    rc, out = build.run_tests(root, extra=())
    tail = out.strip().splitlines()
    return name, opts, rc, "\n".join(l for l in tail if "FAILED" in l or "Error" in l or "passed" in l or "failed" in l)[-800:]

if __name__ == "__main__":
    jobs = [(n, o) for n in V for o in ["transport=grpc+rest", "transport=rest,rest-numeric-enums"]]
    with ProcessPoolExecutor(16) as ex:
        for name, opts, rc, out in ex.map(run, jobs):
            print(f"{name:28s} {opts:36s} rc={rc} {out if rc else out.splitlines()[-1] if out else ''}")
