import sys, traceback, ast, yaml, subprocess
sys.path.insert(0, '/tmp/feas')
import build
from exp1 import base
from exp2 import svc, M
a = base()
# nested message referenced only by a kept method
a["files"][0]["messages"].append({"name": "Outer", "fields": [{"name": "x"}]})
f = build.build_file(a["files"][0])
outer = [m for m in f.message_type if m.name == "Outer"][0]
inner = outer.nested_type.add(name="Inner"); inner.field.add(name="y", number=1, type=9, label=1, json_name="y")
en = outer.enum_type.add(name="Kind"); en.value.add(name="KIND_UNSPECIFIED", number=0)
gb = [m for m in f.message_type if m.name == "GetBookRequest"][0]
gb.field.add(name="inner", number=9, type=11, label=1, type_name=".acme.lib.v1.Outer.Inner", json_name="inner")
gb.field.add(name="kind", number=10, type=14, label=1, type_name=".acme.lib.v1.Outer.Kind", json_name="kind")
yml = {"type": "google.api.Service", "config_version": 3, "name": "lib.example.com",
       "apis": [{"name": "acme.lib.v1.Library"}],
       "publishing": {"library_settings": [{"version": "acme.lib.v1", "python_settings": {"common": {"selective_gapic_generation": {"methods": ["acme.lib.v1.Library.GetBook", "acme.lib.v1.Library.ImportBooks"]}}}}]}}
open("/tmp/feas/sel.yaml", "w").write(yaml.safe_dump(yml))
from google.protobuf.compiler import plugin_pb2
req = plugin_pb2.CodeGeneratorRequest()
for mod in build.DEPS: req.proto_file.append(build.fdp_of(mod))
req.proto_file.append(f); req.file_to_generate.append(f.name)
req.parameter = "transport=grpc+rest,service-yaml=/tmp/feas/sel.yaml"
try:
    res = build.generate(req); build.materialise(res, "/tmp/feas/sel")
    r = subprocess.run([sys.executable, "-c", "import sys; sys.path.insert(0,'.'); from acme import lib_v1; print(sorted(n for n in dir(lib_v1) if n[0].isupper())); print([m for m in dir(lib_v1.LibraryClient) if not m.startswith('_') and 'book' in m])"], cwd="/tmp/feas/sel", capture_output=True, text=True)
    print(r.stdout[-1500:], r.stderr[-1500:])
except Exception:
    traceback.print_exc()
