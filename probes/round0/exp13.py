import sys, hashlib, os, json
sys.path.insert(0, '/tmp/feas')
import build
from exp1 import base
from exp2 import svc, M
a = base(); M(a, "CreateBookRequest")["fields"] += [{"name": "request_id", "uuid4": True}, {"name": "opt_request_id", "uuid4": True, "optional": True}]
# many resources, file-level resource defs, refs, two services, cross-file types with same module base name in another package
a["files"][0]["resource_definitions"] = [{"type": "lib.example.com/Archive", "patterns": ["archives/{archive}"]}, {"type": "other.example.com/Wing", "patterns": ["wings/{wing}"]}, {"type": "third.example.com/Row", "patterns": ["rows/{row}"]}]
M(a, "ImportBooksRequest")["fields"] += [{"name": "archive", "ref": "lib.example.com/Archive"}, {"name": "wing", "ref": "other.example.com/Wing"}, {"name": "row", "child_ref": "third.example.com/Row"}, {"name": "shelf", "ref": "lib.example.com/Shelf"}]
for i in range(6):
    a["files"][0]["messages"].append({"name": f"Res{i}", "resource": {"type": f"lib.example.com/Res{i}", "patterns": [f"res{i}/{{res{i}}}"]}, "fields": [{"name": "name"}]})
    M(a, "Book")["fields"].append({"name": f"res{i}", "type": f"Res{i}"})
M(a, "Book")["fields"] += [{"name": "ts", "type": "google.protobuf.Timestamp"}, {"name": "dur", "type": "google.protobuf.Duration"}, {"name": "st", "type": "google.rpc.Status"}, {"name": "anyf", "type": "google.protobuf.Any"}]
a["files"][0]["services"].append({"name": "Admin", "methods": [{"name": "GetShelf", "in": "GetBookRequest", "out": "Shelf", "http": [{"verb": "get", "uri": "/v1/{name=shelves/*}"}], "sigs": ["name"]}]})
cfg = {"methodConfig": [{"name": [{"service": "acme.lib.v1.Library", "method": "GetBook"}], "timeout": "60s",
   "retryPolicy": {"initialBackoff": "0.1s", "maxBackoff": "1.5s", "backoffMultiplier": 1.3, "retryableStatusCodes": ["UNAVAILABLE", "DEADLINE_EXCEEDED", "ABORTED", "INTERNAL", "RESOURCE_EXHAUSTED", "UNKNOWN"]}}]}
open("/tmp/feas/retry2.json", "w").write(json.dumps(cfg))
req = build.build_request(a, "transport=grpc+rest,metadata,retry-config=/tmp/feas/retry2.json,service-yaml=/tmp/feas/svc.yaml")
res = build.generate(req)
h = hashlib.sha256(res.SerializeToString(deterministic=True)).hexdigest()
print(os.environ.get("PYTHONHASHSEED"), h[:16], len(res.file))
build.materialise(res, sys.argv[1])
