"""Throw-away prototype: abstract API (python dict) -> CodeGeneratorRequest -> generated tree.
Used only to explore feasibility for DESIGN.md."""
import io, os, sys, json, shutil, subprocess, tempfile
from google.protobuf import descriptor_pb2 as d
from google.protobuf.compiler import plugin_pb2
from google.api import annotations_pb2, client_pb2, field_behavior_pb2, resource_pb2, http_pb2, routing_pb2, field_info_pb2, launch_stage_pb2
from google.protobuf import empty_pb2, descriptor_pb2, duration_pb2, any_pb2, timestamp_pb2, struct_pb2, wrappers_pb2, field_mask_pb2
from google.longrunning import operations_pb2
from google.rpc import status_pb2

DEPS = [descriptor_pb2, duration_pb2, any_pb2, http_pb2, annotations_pb2, launch_stage_pb2, client_pb2,
        field_behavior_pb2, resource_pb2, routing_pb2, field_info_pb2, empty_pb2, timestamp_pb2, struct_pb2,
        wrappers_pb2, field_mask_pb2, status_pb2, operations_pb2]

SCALARS = dict(double=1, float=2, int64=3, uint64=4, int32=5, fixed64=6, fixed32=7, bool=8, string=9,
               bytes=12, uint32=13, sfixed32=15, sfixed64=16, sint32=17, sint64=18)

def camel(s):
    parts = s.split('_')
    return parts[0] + ''.join(p[:1].upper() + p[1:] for p in parts[1:])

def fdp_of(mod):
    f = d.FileDescriptorProto(); mod.DESCRIPTOR.CopyToProto(f); return f

def add_field(msg, pkg, fld, num):
    name = fld['name']; t = fld.get('type', 'string')
    f = msg.field.add(name=name, number=fld.get('number', num), json_name=camel(name))
    f.label = 3 if fld.get('repeated') else 1
    if t in SCALARS:
        f.type = SCALARS[t]
    elif t.startswith('enum:'):
        f.type = 14; f.type_name = '.' + t[5:] if t[5:].split('.')[0] in ('google', 'acme', 'other') else f'.{pkg}.{t[5:]}'
    elif t.startswith('map:'):
        k, v = t[4:].split(',')
        entry = msg.nested_type.add(name=''.join(p.capitalize() for p in name.split('_')) + 'Entry')
        entry.options.map_entry = True
        add_field(entry, pkg, dict(name='key', type=k), 1)
        add_field(entry, pkg, dict(name='value', type=v), 2)
        f.type = 11; f.label = 3; f.type_name = f'.{pkg}.{msg.name}.{entry.name}'  # only top-level msgs
    else:
        f.type = 11; f.type_name = '.' + t if t.split('.')[0] in ('google', 'acme', 'other') else f'.{pkg}.{t}'
    if fld.get('optional'):
        f.proto3_optional = True
        msg.oneof_decl.add(name='_' + name); f.oneof_index = len(msg.oneof_decl) - 1
    if 'oneof' in fld:
        names = [o.name for o in msg.oneof_decl]
        if fld['oneof'] not in names:
            msg.oneof_decl.add(name=fld['oneof']); names.append(fld['oneof'])
        f.oneof_index = names.index(fld['oneof'])
    if fld.get('required'):
        f.options.Extensions[field_behavior_pb2.field_behavior].append(field_behavior_pb2.REQUIRED)
    if fld.get('uuid4'):
        f.options.Extensions[field_info_pb2.field_info].format = field_info_pb2.FieldInfo.UUID4
    if fld.get('ref'):
        f.options.Extensions[resource_pb2.resource_reference].type = fld['ref']
    if fld.get('child_ref'):
        f.options.Extensions[resource_pb2.resource_reference].child_type = fld['child_ref']

def add_message(container, pkg, m, nested=False):
    msg = (container.nested_type if nested else container.message_type).add(name=m['name'])
    # real oneofs must precede synthetic ones
    for fld in m.get('fields', []):
        if 'oneof' in fld and fld['oneof'] not in [o.name for o in msg.oneof_decl]:
            msg.oneof_decl.add(name=fld['oneof'])
    for i, fld in enumerate(m.get('fields', []), 1):
        add_field(msg, pkg, fld, i)
    for e in m.get('enums', []):
        en = msg.enum_type.add(name=e['name'])
        for i, v in enumerate(e['values']): en.value.add(name=v, number=i)
    if m.get('resource'):
        r = msg.options.Extensions[resource_pb2.resource]
        r.type = m['resource']['type']; r.pattern.extend(m['resource']['patterns'])
    return msg

def build_file(fd):
    pkg = fd['package']
    f = d.FileDescriptorProto(name=fd['name'], package=pkg, syntax='proto3')
    f.dependency.extend(fd.get('deps', ["google/api/annotations.proto", "google/api/client.proto",
        "google/api/field_behavior.proto", "google/api/resource.proto", "google/api/routing.proto", "google/api/field_info.proto",
        "google/protobuf/empty.proto", "google/longrunning/operations.proto"]))
    for e in fd.get('enums', []):
        en = f.enum_type.add(name=e['name'])
        for i, v in enumerate(e['values']): en.value.add(name=v, number=i)
    for m in fd.get('messages', []):
        add_message(f, pkg, m)
    for rd in fd.get('resource_definitions', []):
        r = f.options.Extensions[resource_pb2.resource_definition].add(); r.type = rd['type']; r.pattern.extend(rd['patterns'])
    for s in fd.get('services', []):
        sv = f.service.add(name=s['name'])
        sv.options.Extensions[client_pb2.default_host] = s.get('host', 'lib.example.com')
        if s.get('scopes'): sv.options.Extensions[client_pb2.oauth_scopes] = s['scopes']
        for m in s['methods']:
            q = lambda t: '.' + t if '.' in t else f'.{pkg}.{t}'
            md = sv.method.add(name=m['name'], input_type=q(m['in']), output_type=q(m['out']),
                               client_streaming=m.get('cs', False), server_streaming=m.get('ss', False))
            for i, h in enumerate(m.get('http', [])):
                rule = md.options.Extensions[annotations_pb2.http] if i == 0 else md.options.Extensions[annotations_pb2.http].additional_bindings.add()
                setattr(rule, h['verb'], h['uri'])
                if h.get('body'): rule.body = h['body']
            for sig in m.get('sigs', []):
                md.options.Extensions[client_pb2.method_signature].append(sig)
            for rp in m.get('routing', []):
                p = md.options.Extensions[routing_pb2.routing].routing_parameters.add(); p.field = rp['field']; p.path_template = rp.get('tmpl', '')
            if m.get('lro'):
                oi = md.options.Extensions[operations_pb2.operation_info]
                oi.response_type = m['lro']['resp']; oi.metadata_type = m['lro']['meta']
            if m.get('deprecated'): md.options.deprecated = True
    return f

def build_request(api, opts=''):
    req = plugin_pb2.CodeGeneratorRequest()
    for mod in DEPS: req.proto_file.append(fdp_of(mod))
    for fd in api['files']:
        f = build_file(fd); req.proto_file.append(f)
        if fd.get('target', True): req.file_to_generate.append(f.name)
    req.parameter = opts
    return req

def generate(req):
    from gapic.cli import generate as g
    out = io.BytesIO()
    g.generate.callback(request=io.BytesIO(req.SerializeToString()), output=out)
    return plugin_pb2.CodeGeneratorResponse.FromString(out.getvalue())

def materialise(res, root):
    shutil.rmtree(root, ignore_errors=True)
    for f in res.file:
        p = os.path.join(root, f.name); os.makedirs(os.path.dirname(p) or root, exist_ok=True)
        open(p, 'w').write(f.content)

def run_tests(root, extra=()):
    r = subprocess.run([sys.executable, '-m', 'pytest', '-q', '-x', '-p', 'no:cacheprovider', 'tests/unit', *extra],
                       cwd=root, capture_output=True, text=True)
    return r.returncode, r.stdout[-3000:]

if __name__ == '__main__':
    api = json.load(open(sys.argv[1])); root = sys.argv[2]; opts = sys.argv[3] if len(sys.argv) > 3 else 'transport=grpc+rest'
    res = generate(build_request(api, opts)); materialise(res, root)
    rc, out = run_tests(root); print(rc); print(out[-1500:])
