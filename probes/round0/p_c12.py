import sys, keyword, ast, subprocess, traceback, os, collections, shutil
sys.path.insert(0, '/tmp/feas')
import build
from gapic.utils.reserved_names import RESERVED_NAMES
from concurrent.futures import ProcessPoolExecutor
WORDS = sorted(set(RESERVED_NAMES) | set(keyword.kwlist))
POS = ["topField", "nestedField", "flattenedParam", "httpPathTop", "httpPathDotted", "httpBody", "routingField", "rpcName", "protoFile"]
def make(word, pos, i):
    pkg = f"acme.w{i}.v1"
    inner = {"name": "Inner", "fields": [{"name": "name"}, {"name": "title"}]}
    req = {"name": "Req", "fields": [{"name": "name"}, {"name": "inner", "type": "Inner"}]}
    m = {"name": "Do", "in": "Req", "out": "Resp", "http": [{"verb": "post", "uri": "/v1/{name=items/*}", "body": "inner"}], "sigs": ["name"]}
    fname = f"acme/w{i}/v1/lib.proto"
    if pos == "topField": req["fields"].append({"name": word})
    elif pos == "nestedField": inner["fields"].append({"name": word})
    elif pos == "flattenedParam": req["fields"].append({"name": word}); m["sigs"] = [f"name,{word}"]
    elif pos == "httpPathTop": req["fields"].append({"name": word}); m["http"] = [{"verb": "get", "uri": "/v1/{%s=items/*}" % word}]; m["sigs"] = [word]
    elif pos == "httpPathDotted": inner["fields"].append({"name": word}); m["http"] = [{"verb": "patch", "uri": "/v1/{inner.%s=items/*}" % word, "body": "inner"}]; m["sigs"] = ["inner"]
    elif pos == "httpBody": req["fields"].append({"name": word, "type": "Inner"}); m["http"] = [{"verb": "post", "uri": "/v1/{name=items/*}", "body": word}]
    elif pos == "routingField": req["fields"].append({"name": word}); m["routing"] = [{"field": word}]
    elif pos == "rpcName": m["name"] = word[:1].upper() + word[1:]
    elif pos == "protoFile": fname = f"acme/w{i}/v1/{word}.proto"
    return {"files": [{"name": fname, "package": pkg, "messages": [inner, req, {"name": "Resp", "fields": [{"name": "x"}]}], "services": [{"name": "Svc", "methods": [m]}]}]}
def run(args):
    i, word, pos = args
    root = f"/tmp/feas/c12/{i}"
    try:
        res = build.generate(build.build_request(make(word, pos, i), "transport=grpc+rest,autogen-snippets=false"))
    except Exception as e:
        return (word, pos, "GEN", type(e).__name__ + ": " + str(e).replace("\n", " ")[:100])
    for f in res.file:
        if f.name.endswith(".py") and not f.name.startswith(("tests/", "docs/")):
            try: ast.parse(f.content)
            except SyntaxError as e: return (word, pos, "SYNTAX", f"{f.name}:{e.lineno}: {f.content.splitlines()[e.lineno-1].strip()[:80]}")
    build.materialise(res, root)
    r = subprocess.run([sys.executable, "-c", f"import sys; sys.path.insert(0, '{root}'); import acme.w{i}_v1 as m; import pkgutil\nfor x in pkgutil.walk_packages(m.__path__, m.__name__ + '.'): __import__(x.name)"], capture_output=True, text=True)
    shutil.rmtree(root, ignore_errors=True)
    if r.returncode: return (word, pos, "IMPORT", r.stderr.strip().splitlines()[-1][:160])
    return (word, pos, "ok", "")
if __name__ == "__main__":
    jobs = [(i, w, p) for i, (w, p) in enumerate((w, p) for p in POS for w in WORDS)]
    out = collections.defaultdict(list)
    with ProcessPoolExecutor(16) as ex:
        for word, pos, st, msg in ex.map(run, jobs, chunksize=4):
            if st != "ok": out[(pos, st)].append((word, msg))
    print(len(jobs), "cases;", len(WORDS), "words")
    for (pos, st), items in sorted(out.items()):
        print(pos, st, len(items), [w for w, _ in items][:40]); print("    e.g.", items[0][1])
