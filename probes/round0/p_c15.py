import sys, yaml, json, subprocess, inspect, importlib, re
sys.path.insert(0, '/tmp/feas')
import build
from exp1 import base
from exp2 import svc, M
a = base()
svc(a)["methods"] += [{"name": "Import", "in": "GetBookRequest", "out": "Book", "http": [{"verb": "get", "uri": "/v1/{name=shelves/*/books/*}:imp"}], "sigs": ["name"]},
                      {"name": "CreateChannel", "in": "GetBookRequest", "out": "Book"}]
a["files"][0]["services"].append({"name": "Admin", "methods": [{"name": "GetBook", "in": "DeleteBookRequest", "out": "Shelf", "http": [{"verb": "get", "uri": "/v1/{name=shelves/*}"}]}]})
M(a, "CreateBookRequest")["fields"].append({"name": "class"})
yml = {"type": "google.api.Service", "config_version": 3, "name": "lib.example.com", "apis": [{"name": "acme.lib.v1.Library"}, {"name": "google.iam.v1.IAMPolicy"}, {"name": "google.longrunning.Operations"}],
  "http": {"rules": [{"selector": "google.iam.v1.IAMPolicy.SetIamPolicy", "post": "/v1/{resource=shelves/*}:setIamPolicy", "body": "*"},
                     {"selector": "google.iam.v1.IAMPolicy.TestIamPermissions", "post": "/v1/{resource=shelves/*}:testIamPermissions", "body": "*"},
                     {"selector": "google.longrunning.Operations.ListOperations", "get": "/v1/{name=shelves/*}/operations"},
                     {"selector": "google.longrunning.Operations.DeleteOperation", "delete": "/v1/{name=operations/*}"}]},
  "publishing": {"library_settings": [{"version": "acme.lib.v1", "python_settings": {"common": {"selective_gapic_generation": {"methods": ["acme.lib.v1.Library.GetBook", "acme.lib.v1.Library.Import", "acme.lib.v1.Library.ImportBooks"], "generate_omitted_as_internal": True}}}}]}}
open("/tmp/feas/int.yaml", "w").write(yaml.safe_dump(yml))
res = build.generate(build.build_request(a, "transport=grpc+rest,metadata,service-yaml=/tmp/feas/int.yaml"))
build.materialise(res, "/tmp/feas/int"); sys.path.insert(0, "/tmp/feas/int")
md = json.loads([f.content for f in res.file if f.name.endswith("gapic_metadata.json")][0])
print("protoPackage", md["protoPackage"], "libraryPackage", md["libraryPackage"])
from acme import lib_v1
import importlib
for sname, sdesc in md["services"].items():
    for kind, c in sdesc["clients"].items():
        cls = None
        for modname in ("acme.lib_v1", f"acme.lib_v1.services.{re.sub(r'(?<!^)(?=[A-Z])', '_', sname).lower()}"):
            mod = importlib.import_module(modname); cls = getattr(mod, c["libraryClient"], None) or cls
        missing = [ (rpc, ms) for rpc, ms in c["rpcs"].items() for m in ms["methods"] if cls is None or not hasattr(cls, m)]
        print(sname, kind, c["libraryClient"], "class found:", cls is not None, "rpcs:", len(c["rpcs"]), "missing methods:", missing[:5])
print("exports:", [n for n in dir(lib_v1) if "Client" in n])
print("mixins:", [m for m in ("set_iam_policy", "get_iam_policy", "test_iam_permissions", "list_operations", "delete_operation", "get_operation") if hasattr(lib_v1.BaseLibraryClient if hasattr(lib_v1, "BaseLibraryClient") else lib_v1.LibraryClient, m)])
# fixup script
fx = [f for f in res.file if f.name.startswith("scripts/fixup")][0]
ns = {}
src = fx.content.split("def fix_files")[0]
exec(compile(src, fx.name, "exec"), ns)
tr = [v for k, v in ns.items() if k.endswith("CallTransformer")][0]
for k, v in sorted(tr.METHOD_TO_PARAMS.items()): print("  ", k, v)
