import sys, traceback
sys.path.insert(0, '/tmp/feas')
import build
api = {"files": [{"name": "lib/v1/lib.proto", "package": "lib.v1", "deps": ["google/api/client.proto"], "messages": [{"name": "Req", "fields": [{"name": "name"}]}],
              "services": [{"name": "Svc", "methods": [{"name": "Do", "in": "Req", "out": "Req"}]}]}]}
try: build.generate(build.build_request(api, "transport=grpc,autogen-snippets=false"))
except Exception: traceback.print_exc()
