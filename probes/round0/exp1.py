import json, sys, copy, time
sys.path.insert(0, '/tmp/feas')
import build

def base():
    return {"files": [{"name": "acme/lib/v1/lib.proto", "package": "acme.lib.v1",
      "enums": [{"name": "Genre", "values": ["GENRE_UNSPECIFIED", "FICTION", "FACT"]}],
      "messages": [
        {"name": "Book", "resource": {"type": "lib.example.com/Book", "patterns": ["shelves/{shelf}/books/{book}"]},
         "fields": [{"name": "name"}, {"name": "title"}, {"name": "genre", "type": "enum:Genre"},
                    {"name": "pages", "type": "int32"}, {"name": "tags", "repeated": True},
                    {"name": "labels", "type": "map:string,string"}, {"name": "rating", "type": "double", "optional": True},
                    {"name": "isbn", "oneof": "id"}, {"name": "lccn", "type": "int64", "oneof": "id"}]},
        {"name": "Shelf", "resource": {"type": "lib.example.com/Shelf", "patterns": ["shelves/{shelf}"]},
         "fields": [{"name": "name"}, {"name": "theme"}]},
        {"name": "GetBookRequest", "fields": [{"name": "name", "required": True, "ref": "lib.example.com/Book"}]},
        {"name": "CreateBookRequest", "fields": [{"name": "parent", "required": True, "ref": "lib.example.com/Shelf"},
                                                 {"name": "book", "type": "Book", "required": True}, {"name": "book_id"}]},
        {"name": "UpdateBookRequest", "fields": [{"name": "book", "type": "Book", "required": True},
                                                 {"name": "update_mask", "type": "google.protobuf.FieldMask"}]},
        {"name": "DeleteBookRequest", "fields": [{"name": "name", "required": True, "ref": "lib.example.com/Book"}]},
        {"name": "ListBooksRequest", "fields": [{"name": "parent", "required": True, "ref": "lib.example.com/Shelf"},
                                                {"name": "page_size", "type": "int32"}, {"name": "page_token"}]},
        {"name": "ListBooksResponse", "fields": [{"name": "books", "type": "Book", "repeated": True}, {"name": "next_page_token"}]},
        {"name": "MoveBookRequest", "fields": [{"name": "name", "required": True}, {"name": "other_shelf_name", "required": True}]},
        {"name": "ImportBooksRequest", "fields": [{"name": "parent", "required": True}, {"name": "uri"}]},
        {"name": "ImportBooksResponse", "fields": [{"name": "count", "type": "int32"}]},
        {"name": "ImportBooksMetadata", "fields": [{"name": "progress", "type": "int32"}]},
        {"name": "StreamBooksRequest", "fields": [{"name": "parent"}]},
      ],
      "services": [{"name": "Library", "scopes": "https://www.googleapis.com/auth/cloud-platform", "methods": [
        {"name": "GetBook", "in": "GetBookRequest", "out": "Book", "http": [{"verb": "get", "uri": "/v1/{name=shelves/*/books/*}"}], "sigs": ["name"]},
        {"name": "CreateBook", "in": "CreateBookRequest", "out": "Book", "http": [{"verb": "post", "uri": "/v1/{parent=shelves/*}/books", "body": "book"}], "sigs": ["parent,book,book_id"]},
        {"name": "UpdateBook", "in": "UpdateBookRequest", "out": "Book", "http": [{"verb": "patch", "uri": "/v1/{book.name=shelves/*/books/*}", "body": "book"}], "sigs": ["book,update_mask"]},
        {"name": "DeleteBook", "in": "DeleteBookRequest", "out": "google.protobuf.Empty", "http": [{"verb": "delete", "uri": "/v1/{name=shelves/*/books/*}"}], "sigs": ["name"]},
        {"name": "ListBooks", "in": "ListBooksRequest", "out": "ListBooksResponse", "http": [{"verb": "get", "uri": "/v1/{parent=shelves/*}/books"}], "sigs": ["parent"]},
        {"name": "MoveBook", "in": "MoveBookRequest", "out": "Book", "http": [{"verb": "post", "uri": "/v1/{name=shelves/*/books/*}:move", "body": "*"}], "sigs": ["name,other_shelf_name"]},
        {"name": "ImportBooks", "in": "ImportBooksRequest", "out": "google.longrunning.Operation", "http": [{"verb": "post", "uri": "/v1/{parent=shelves/*}/books:import", "body": "*"}], "lro": {"resp": "ImportBooksResponse", "meta": "ImportBooksMetadata"}},
        {"name": "StreamBooks", "in": "StreamBooksRequest", "out": "Book", "ss": True, "http": [{"verb": "get", "uri": "/v1/{parent=shelves/*}/books:stream"}]},
        {"name": "Chat", "in": "StreamBooksRequest", "out": "Book", "ss": True, "cs": True},
        {"name": "Upload", "in": "Book", "out": "ImportBooksResponse", "cs": True},
      ]}]}]}

if __name__ == "__main__":
    api = base()
    for opts in ["transport=grpc+rest,metadata", "transport=grpc", "transport=rest,rest-numeric-enums"]:
        t = time.time()
        res = build.generate(build.build_request(api, opts)); build.materialise(res, "/tmp/feas/o1")
        t1 = time.time()
        rc, out = build.run_tests("/tmp/feas/o1")
        print(opts, "gen", round(t1 - t, 2), "tests", round(time.time() - t1, 2), rc, out.strip().splitlines()[-1])
        if rc: print(out)
