import sys, yaml, json, subprocess, inspect, importlib
sys.path.insert(0, '/tmp/feas')
import build
def api18():
    return {"files": [{"name": "acme/ap/v1/ap.proto", "package": "acme.ap.v1", "messages": [
        {"name": "Inner", "fields": [{"name": "rid", "uuid4": True}]},
        {"name": "Req", "fields": [{"name": "name"}, {"name": "ok_plain", "uuid4": True}, {"name": "ok_opt", "uuid4": True, "optional": True},
            {"name": "not_annotated"}, {"name": "req_id", "uuid4": True, "required": True}, {"name": "num", "type": "int32", "uuid4": True}, {"name": "inner", "type": "Inner"},
            {"name": "bytes_id", "type": "bytes", "uuid4": True}, {"name": "rep_id", "repeated": True, "uuid4": True}]},
        {"name": "Resp", "fields": [{"name": "x"}]}],
      "services": [{"name": "Ap", "methods": [{"name": "Do", "in": "Req", "out": "Resp", "http": [{"verb": "post", "uri": "/v1/{name=items/*}", "body": "*"}]}, {"name": "Stream", "in": "Req", "out": "Resp", "ss": True}, {"name": "Up", "in": "Req", "out": "Resp", "cs": True}]}]}]}
def run(settings):
    yml = {"type": "google.api.Service", "config_version": 3, "name": "ap.example.com", "apis": [{"name": "acme.ap.v1.Ap"}], "publishing": {"method_settings": settings}}
    open("/tmp/feas/ap.yaml", "w").write(yaml.safe_dump(yml))
    try:
        res = build.generate(build.build_request(api18(), "transport=grpc+rest,autogen-snippets=false,service-yaml=/tmp/feas/ap.yaml")); return "ok", res
    except Exception as e:
        return type(e).__name__, str(e).strip().replace("\n", " | ")[:220]
S = lambda sel, *f: {"selector": sel, "auto_populated_fields": list(f)}
D = "acme.ap.v1.Ap.Do"
for name, st in [("valid", [S(D, "ok_plain", "ok_opt")]), ("not annotated", [S(D, "not_annotated")]), ("required", [S(D, "req_id")]), ("non-string", [S(D, "num")]), ("bytes", [S(D, "bytes_id")]),
                 ("repeated string", [S(D, "rep_id")]), ("nested", [S(D, "inner.rid")]), ("missing field", [S(D, "nope")]), ("unknown method", [S("acme.ap.v1.Ap.Nope", "ok_plain")]),
                 ("server streaming", [S("acme.ap.v1.Ap.Stream", "ok_plain")]), ("client streaming", [S("acme.ap.v1.Ap.Up", "ok_plain")]), ("duplicate", [S(D, "ok_plain"), S(D, "ok_opt")]),
                 ("no fields", [{"selector": D}]), ("streaming no fields", [{"selector": "acme.ap.v1.Ap.Stream"}]), ("two errors", [S(D, "num", "req_id", "ok_plain")]), ("same field twice", [S(D, "ok_plain", "ok_plain")])]:
    r = run(st); print(f"{name:20s}", r[0], r[1] if r[0] != "ok" else "")
