import sys, json, collections, os
sys.path.insert(0, '/tmp/feas')
import build
def api_for(pkg, fname, extra_files=()):
    files = [{"name": fname, "package": pkg, "deps": ["google/api/client.proto"], "messages": [{"name": "Req", "fields": [{"name": "name"}]}],
              "services": [{"name": "Svc", "methods": [{"name": "Do", "in": "Req", "out": "Req"}]}]}]
    for n, p, msgs in extra_files: files.insert(0, {"name": n, "package": p, "deps": [], "messages": msgs})
    return {"files": files}
def summary(res):
    names = [f.name for f in res.file]
    py = sorted(n for n in names if n.endswith(".py") and not n.startswith(("tests/", "docs/", "samples/", "scripts/")) and "/" in n)
    dup = [n for n, c in collections.Counter(names).items() if c > 1]
    bad = [n for n in names if n.startswith("/") or any(s in ("", ".", "..") for s in n.split("/"))]
    roots = sorted(set("/".join(n.split("/")[:-1]) for n in py))
    missing_init = [d for d in roots if d + "/__init__.py" not in names]
    return dict(n=len(names), dup=dup, bad=bad, roots=roots[:6], missing_init=missing_init, types=[n for n in py if "/types/" in n and not n.endswith("__init__.py")])
for pkg, fname in [("acme.lib.v1", "acme/lib/v1/lib.proto"), ("lib.v1", "lib/v1/lib.proto"), ("lib", "lib/lib.proto"), ("a.b.c.lib.v1beta1", "a/b/c/lib/v1beta1/lib.proto"), ("acme.lib.v1p1beta1", "x/lib.proto"),
                   ("acme.lib.v1", "acme/lib/v1/My.File.proto"), ("acme.lib.v1", "acme/lib/v1/import.proto"), ("acme.lib.v1", "acme/lib/v1/metadata.proto"), ("acme.lib.v1", "acme/lib/v1/retry.proto"), ("acme.lib.v1alpha", "l.proto"), ("acme.v1.lib", "l.proto"), ("acme.lib_api.v2", "acme/lib_api/v2/lib-svc.proto")]:
    try:
        res = build.generate(build.build_request(api_for(pkg, fname), "transport=grpc,autogen-snippets=false"))
        print(pkg, fname, "->", summary(res))
    except Exception as e:
        print(pkg, fname, "-> EXC", type(e).__name__, str(e)[:120])
print("--- overrides / dependency-only / unknown options")
base = api_for("acme.lib.v1", "acme/lib/v1/lib.proto", [("other/dep/v1/dep.proto", "other.dep.v1", [{"name": "D", "fields": [{"name": "x"}]}])])
base["files"][0]["target"] = False
for opts in ["python-gapic-name=cool_lib,python-gapic-namespace=Big.Corp", "python-gapic-namespace=a,python-gapic-namespace=b", "warehouse-package-name=my-pkg", "foo,bar=1,python-gapic-zzz=3,transport=grpc", "transport=grpc"]:
    res = build.generate(build.build_request(base, opts + ",autogen-snippets=false")); s = summary(res)
    print(opts, "->", s["roots"][:3], "dep-files:", [f.name for f in res.file if "dep" in f.name and "depend" not in f.name][:3], s["n"])
