import sys, json, yaml, time, importlib, traceback
sys.path.insert(0, '/tmp/feas')
import build
from exp1 import base
from exp2 import svc, M
a = base()
M(a, "CreateBookRequest")["fields"] += [{"name": "request_id", "uuid4": True}, {"name": "opt_request_id", "uuid4": True, "optional": True}]
yml = {"type": "google.api.Service", "config_version": 3, "name": "lib.example.com",
  "apis": [{"name": "acme.lib.v1.Library"}, {"name": "google.longrunning.Operations"}, {"name": "google.cloud.location.Locations"}, {"name": "google.iam.v1.IAMPolicy"}],
  "http": {"rules": [
    {"selector": "google.longrunning.Operations.GetOperation", "get": "/v1/{name=operations/*}"},
    {"selector": "google.longrunning.Operations.CancelOperation", "post": "/v1/{name=operations/*}:cancel", "body": "*"},
    {"selector": "google.cloud.location.Locations.GetLocation", "get": "/v1/{name=projects/*/locations/*}"},
    {"selector": "google.iam.v1.IAMPolicy.GetIamPolicy", "get": "/v1/{resource=shelves/*}:getIamPolicy"},
  ]},
  "publishing": {"method_settings": [{"selector": "acme.lib.v1.Library.CreateBook", "auto_populated_fields": ["request_id", "opt_request_id"]}]}}
open("/tmp/feas/svc.yaml", "w").write(yaml.safe_dump(yml))
res = build.generate(build.build_request(a, "transport=grpc+rest,service-yaml=/tmp/feas/svc.yaml"))
build.materialise(res, "/tmp/feas/m")
sys.path.insert(0, "/tmp/feas/m")
from acme import lib_v1
import grpc
from concurrent import futures
from google.longrunning import operations_pb2
from google.protobuf import any_pb2
from google.rpc import status_pb2
from acme.lib_v1.services.library.transports import LibraryGrpcTransport
print("mixins on client:", [m for m in dir(lib_v1.LibraryClient) if m in ("get_operation","cancel_operation","list_operations","delete_operation","wait_operation","get_location","list_locations","get_iam_policy","set_iam_policy","test_iam_permissions")])
log = []
ops = {"polls": 0}
class H(grpc.GenericRpcHandler):
    def service(self, hcd):
        path = hcd.method
        def uu(req, ctx):
            md = dict(ctx.invocation_metadata())
            log.append((path, req, md.get("x-goog-request-params")))
            if path.endswith("ImportBooks"):
                return operations_pb2.Operation(name="operations/1", done=False).SerializeToString()
            if path.endswith("Operations/GetOperation"):
                ops["polls"] += 1
                if ops["polls"] < 3: return operations_pb2.Operation(name="operations/1", done=False).SerializeToString()
                resp = any_pb2.Any(); resp.Pack(lib_v1.ImportBooksResponse.pb(lib_v1.ImportBooksResponse(count=7)))
                meta = any_pb2.Any(); meta.Pack(lib_v1.ImportBooksMetadata.pb(lib_v1.ImportBooksMetadata(progress=100)))
                return operations_pb2.Operation(name="operations/1", done=True, response=resp, metadata=meta).SerializeToString()
            if path.endswith("CreateBook"): return lib_v1.Book.serialize(lib_v1.Book(name="b"))
            return b""
        return grpc.unary_unary_rpc_method_handler(uu)
srv = grpc.server(futures.ThreadPoolExecutor(max_workers=2)); srv.add_generic_rpc_handlers((H(),))
port = srv.add_insecure_port("127.0.0.1:0"); srv.start()
c = lib_v1.LibraryClient(transport=LibraryGrpcTransport(channel=grpc.insecure_channel(f"127.0.0.1:{port}")))
# virtual sleep for polling
import google.api_core.retry.retry_unary as ru, google.api_core.retry.retry_base as rb, google.api_core.future.polling as pol
sleeps = []
class FT:
    t = 0.0
    def monotonic(self): return FT.t
    def sleep(self, d): sleeps.append(d); FT.t += d
    def time(self): return FT.t
ru.time = FT(); rb.time = FT()
t0 = time.time()
op = c.import_books(request={"parent": "shelves/1"})
r = op.result()
print("LRO result", type(r).__name__, r.count, "metadata", type(op.metadata).__name__, op.metadata.progress, "polls", ops["polls"], "sleeps", [round(s,2) for s in sleeps], "wall", round(time.time()-t0, 2))
for e in log: print(" ", e[0], e[2])
log.clear()
c.create_book(parent="shelves/1", book={"name": "x"})
c.create_book(request={"parent": "shelves/1", "request_id": "mine", "opt_request_id": ""})
for e in log:
    r = lib_v1.CreateBookRequest.deserialize(e[1]); print("  create:", repr(r.request_id), repr(r.opt_request_id), "opt present:", "opt_request_id" in r)
log.clear()
c.get_operation(request={"name": "operations/9"}); c.get_location(request={"name": "projects/p/locations/l"}); c.get_iam_policy(request={"resource": "shelves/1"})
for e in log: print(" ", e[0], e[2])
srv.stop(0)
