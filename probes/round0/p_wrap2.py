import itertools, collections
from gapic.utils.lines import wrap
TOK = {"w3": "abc", "w9": "abcdefghi", "w30": "x"*30, "sp": " ", "sp2": "  ", "tab": "\t", "nl": "\n", "nlsp": "\n ", "blank": "\n\n",
       "li": "- ", "num": "1. ", "col": "foo:", "q": '"', "dash": "a-b"}
def words(s): return s.split()
cls = collections.Counter(); ex = {}
for L in range(1, 5):
    for toks in itertools.product(TOK, repeat=L):
        text = "".join(TOK[t] for t in toks)
        for width, indent, offset in ((10, 0, 0), (20, 4, 0), (20, 0, 8), (40, 8, 12), (72, 4, 7)):
            try: out = wrap(text, width, indent=indent, offset=offset)
            except Exception: continue
            wi, wo = words(text), words(out)
            if wi != wo:
                starts_ws = text[:1] in " \t\n"
                first_line = text.split("\n")[0]
                kind = ("lead-ws" if starts_ws else "no-lead-ws") + ("|first-has-tab" if "\t" in first_line else "") + ("|first-dblsp" if "  " in first_line.strip() else "") + ("|more" if len(wo) > len(wi) else "|fewer" if len(wo) < len(wi) else "|changed")
                cls[kind] += 1
                if kind not in ex or len(text) < len(ex[kind][0]): ex[kind] = (text, width, indent, offset, out)
            # width with tab counted as one char
            lines = out.split("\n")
            for i, ln in enumerate(lines):
                lim = width - offset if i == 0 else width
                if len(ln) > lim and len(ln.split()) > 1:
                    k = "WIDTH" + ("-first" if i == 0 else "")
                    cls[k] += 1
                    if k not in ex or len(text) < len(ex[k][0]): ex[k] = (text, width, indent, offset, out)
                    break
for k, v in sorted(cls.items()): print(k, v, [repr(x) for x in ex[k]])
