import sys, itertools, re, collections
sys.path.insert(0, '/tmp/feas')
import build
SEPS = ["/", "-", "_", "~", "."]
def patterns():
    # token lists: ("lit", s) ("var", name) ("mvar", name)
    out = []
    for n in range(1, 5):
        for seps in itertools.product(SEPS, repeat=n - 1):
            for tail in ("", "mvar", "singleton"):
                toks = [("lit", "c0/")]
                for i in range(n):
                    if i > 0:
                        toks.append(("lit", "/c%d/" % i if seps[i - 1] == "/" else seps[i - 1]))
                    toks.append(("var", "v%d" % i))
                if tail == "mvar": toks[-1] = ("mvar", toks[-1][1])
                if tail == "singleton": toks.append(("lit", "/settings"))
                out.append(toks)
    return out
def pat_str(toks): return "".join(t[1] if t[0] == "lit" else "{%s}" % t[1] if t[0] == "var" else "{%s=**}" % t[1] for t in toks)
pats = patterns()
print(len(pats), "patterns")
msgs = []; req_fields = []
for i, toks in enumerate(pats):
    msgs.append({"name": f"R{i}", "resource": {"type": f"ex.com/R{i}", "patterns": [pat_str(toks)]}, "fields": [{"name": "name"}]})
    req_fields.append({"name": f"r{i}", "type": f"R{i}"})
msgs.append({"name": "Wild", "resource": {"type": "ex.com/Wild", "patterns": ["*"]}, "fields": [{"name": "name"}]}); req_fields.append({"name": "wild", "type": "Wild"})
msgs += [{"name": "Req", "fields": req_fields}, {"name": "Resp", "fields": [{"name": "x"}]}]
api = {"files": [{"name": "acme/res/v1/res.proto", "package": "acme.res.v1", "messages": msgs,
        "services": [{"name": "Res", "methods": [{"name": "Do", "in": "Req", "out": "Resp"}]}]}]}
res = build.generate(build.build_request(api, "transport=grpc,autogen-snippets=false"))
build.materialise(res, "/tmp/feas/res"); sys.path.insert(0, "/tmp/feas/res")
from acme import res_v1
C = res_v1.ResClient
bad = collections.Counter(); ex = {}
n = 0
VALS = ["a", "ab", "b1", "x y", "é", "a%b", "A:b"]
for i, toks in enumerate(pats):
    vars_ = [t for t in toks if t[0] != "lit"]
    seps_in_pattern = set(ch for t in toks if t[0] == "lit" for ch in t[1] if ch in "/-_~.")
    build_fn = getattr(C, f"r{i}_path"); parse_fn = getattr(C, f"parse_r{i}_path")
    dom = [v for v in VALS if not (set(v) & seps_in_pattern)]
    for vals in itertools.product(dom[:4], repeat=len(vars_)):
        a = {t[1]: v for t, v in zip(vars_, vals)}
        if vars_[-1][0] == "mvar": a[vars_[-1][1]] = vals[-1] + "/" + vals[0]
        n += 1
        p = build_fn(**a); back = parse_fn(p)
        if back != a:
            bad["roundtrip"] += 1; ex.setdefault("roundtrip", (pat_str(toks), a, p, back))
        elif build_fn(**back) != p:
            bad["rebuild"] += 1
    for junk in ["", "nomatch", "c0", "c0/"]:
        if parse_fn(junk) != {}: bad["junk"] += 1; ex.setdefault("junk", (pat_str(toks), junk, parse_fn(junk)))
print("wild:", C.wild_path(), C.parse_wild_path("anything/at all"), C.parse_wild_path(""))
print(n, dict(bad)); print(ex)
print(sorted(m for m in dir(C) if m.endswith("_path") and m.startswith("common")))
# classify failures
byc = collections.Counter(); exs = {}
for i, toks in enumerate(pats):
    vars_ = [t for t in toks if t[0] != "lit"]
    seps_in_pattern = set(ch for t in toks if t[0] == "lit" for ch in t[1] if ch in "/-_~.")
    build_fn = getattr(C, f"r{i}_path"); parse_fn = getattr(C, f"parse_r{i}_path")
    dom = [v for v in VALS if not (set(v) & seps_in_pattern)]
    for vals in itertools.product(dom[:4], repeat=len(vars_)):
        a = {t[1]: v for t, v in zip(vars_, vals)}
        if vars_[-1][0] == "mvar": a[vars_[-1][1]] = vals[-1] + "/" + vals[0]
        p = build_fn(**a)
        if parse_fn(p) != a:
            k = ("dot" if "." in seps_in_pattern else "nodot") + ("|mvar" if vars_[-1][0] == "mvar" else "")
            byc[k] += 1; exs.setdefault(k, (pat_str(toks), a, p, parse_fn(p)))
print(dict(byc)); print(exs)
