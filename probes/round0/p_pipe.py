import sys, json, random, re, os, subprocess, shutil, collections
sys.path.insert(0, '/tmp/feas')
import build
from concurrent.futures import ProcessPoolExecutor
def load_cases(path):
    out = []
    for line in open(path):
        m = re.match(r'<<"CASE", (".*")>>$', line.strip())
        out.append(json.loads(json.loads(m.group(1))))
    return out
def concretise(case):
    api, opts = case["api"], case["opts"]
    pkg = ".".join(api["pkg"]); pdir = "/".join(api["pkg"])
    files = []
    if api["depfile"]:
        files.append({"name": "other/dep/v1/dep.proto", "package": "other.dep.v1", "deps": [], "target": False, "messages": [{"name": "Dep", "fields": [{"name": "x"}]}]})
    msgs = [{"name": "Item", "fields": [{"name": "name"}] + ([{"name": "dep", "type": "other.dep.v1.Dep"}] if api["depfile"] else [])},
            {"name": "Req", "fields": [{"name": "name"}, {"name": "page_size", "type": "int32"}, {"name": "page_token"}]},
            {"name": "ListResp", "fields": [{"name": "items", "type": "Item", "repeated": True}, {"name": "next_page_token"}]},
            {"name": "Meta", "fields": [{"name": "p", "type": "int32"}]}]
    for i, f in enumerate(api["files"]):
        fd = {"name": f"{pdir}/{f['proto']}.proto", "package": pkg, "messages": [], "services": []}
        if api["depfile"]: fd["deps"] = ["google/api/annotations.proto", "google/api/client.proto", "google/longrunning/operations.proto", "google/protobuf/empty.proto", "other/dep/v1/dep.proto"]
        if i == 0: fd["messages"] = msgs
        else: fd["messages"] = [{"name": f"Extra{i}", "fields": [{"name": "x"}]}]
        files.append(fd)
    last = files[-1]
    if len(api["files"]) > 1: last["deps"] = (last.get("deps") or ["google/api/annotations.proto", "google/api/client.proto", "google/longrunning/operations.proto", "google/protobuf/empty.proto"]) + [files[-2]["name"]]
    for s in api["svcs"]:
        methods = []
        for j, k in enumerate(api["kinds"]):
            m = {"name": f"M{j}{k.capitalize()}", "in": "Req", "out": "Item", "http": [{"verb": "get", "uri": "/v1/{name=items/*}:m%d" % j}]}
            if k == "paged": m["out"] = "ListResp"
            if k == "lro": m["out"] = "google.longrunning.Operation"; m["lro"] = {"resp": "Item", "meta": "Meta"}
            if k == "sstream": m["ss"] = True
            methods.append(m)
        last["services"].append({"name": s["camel"], "methods": methods})
    o = "transport=" + "+".join(opts["transport"]) + (",metadata" if opts["metadata"] else "") + ("" if opts["snippets"] else ",autogen-snippets=false")
    return {"files": files}, o
def project(res, root, idx):
    names = [f.name.split("/") for f in res.file]
    rs = root
    inroot = [n for n in names if n[:len(rs)] == rs]
    types = sorted(n for n in inroot if len(n) == len(rs) + 2 and n[len(rs)] == "types" and n[-1] != "__init__.py")
    svcp = sorted(set(tuple(n[:len(rs) + 2]) for n in inroot if len(n) > len(rs) + 2 and n[len(rs)] == "services"))
    trans = sorted(n for n in inroot if len(n) == len(rs) + 4 and n[len(rs)] == "services" and n[len(rs) + 2] == "transports" and n[-1].endswith(".py"))
    pagers = sorted(n for n in inroot if n[-1] == "pagers.py")
    mj = any(n[-1] == "gapic_metadata.json" for n in names)
    sm = any(n[-1].startswith("snippet_metadata") for n in names)
    return dict(types=[list(x) for x in types], svcpkgs=[list(x) for x in svcp], transports=[list(x) for x in trans], pagers=[list(x) for x in pagers], metadataJson=mj, snippetMeta=sm)
def run(args):
    idx, case = args
    api, o = concretise(case)
    try:
        res = build.generate(build.build_request(api, o))
    except Exception as e:
        return idx, ["GEN " + type(e).__name__ + ": " + str(e).replace("\n", " ")[:150]]
    exp = case["expect"]; got = project(res, exp["root"], idx)
    diffs = []
    for k in ("types", "svcpkgs", "transports", "pagers"):
        if sorted(map(tuple, exp[k])) != sorted(map(tuple, got[k])): diffs.append((k, sorted(map(tuple, exp[k]))[:3], sorted(map(tuple, got[k]))[:3]))
    for k in ("metadataJson", "snippetMeta"):
        if exp[k] != got[k]: diffs.append((k, exp[k], got[k]))
    # import + clients/registry
    d = f"/tmp/feas/pp/{idx}"; build.materialise(res, d)
    mod = ".".join(exp["root"])
    code = f"import sys, json; sys.path.insert(0, {d!r}); import importlib, pkgutil; m = importlib.import_module({mod!r})\nfor x in pkgutil.walk_packages(m.__path__, m.__name__ + '.'): importlib.import_module(x.name)\nc = sorted(n for n in dir(m) if n.endswith('Client')); r = [list(getattr(m, n)._transport_registry) for n in c if not n.endswith('AsyncClient')]; print(json.dumps([c, r]))"
    r = subprocess.run([sys.executable, "-c", code], capture_output=True, text=True, env=dict(os.environ))
    shutil.rmtree(d, ignore_errors=True)
    if r.returncode: diffs.append(("import", r.stderr.strip().splitlines()[-1][:200]))
    else:
        c, regs = json.loads(r.stdout.strip().splitlines()[-1])
        if sorted(exp["clients"]) != c: diffs.append(("clients", sorted(exp["clients"]), c))
        if any(rg != exp["registry"] for rg in regs): diffs.append(("registry", exp["registry"], regs))
    return idx, diffs
if __name__ == "__main__":
    cases = load_cases("/tmp/tlcx/pipe/cases.txt")
    random.seed(int(sys.argv[1]) if len(sys.argv) > 1 else 0)
    pick = random.sample([i for i in range(len(cases)) if not cases[i]["api"]["depfile"]], 200)
    bad = collections.Counter(); ex = {}
    with ProcessPoolExecutor(16) as exr:
        for idx, diffs in exr.map(run, [(i, cases[i]) for i in pick]):
            for dd in diffs:
                bad[dd[0] if not dd[0].startswith("GEN") else "GEN"] += 1; ex.setdefault(dd[0][:40], (cases[idx]["api"], cases[idx]["opts"], dd))
    print(len(cases), "cases, replayed", len(pick), dict(bad))
    for k, v in ex.items(): print("  ", k, json.dumps(v)[:600])
