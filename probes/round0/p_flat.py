import sys, itertools, asyncio, inspect, collections
sys.path.insert(0, '/tmp/feas')
import build
msgs = [
 {"name": "Inner", "fields": [{"name": "name"}, {"name": "n", "type": "int32"}, {"name": "deep", "type": "Deep"}]},
 {"name": "Deep", "fields": [{"name": "leaf"}, {"name": "class"}]},
 {"name": "Req", "fields": [{"name": "name"}, {"name": "count", "type": "int32"}, {"name": "flag", "type": "bool"}, {"name": "ratio", "type": "double"},
    {"name": "kind", "type": "enum:Kind"}, {"name": "inner", "type": "Inner"}, {"name": "names", "repeated": True}, {"name": "inners", "type": "Inner", "repeated": True},
    {"name": "attrs", "type": "map:string,string"}, {"name": "class"}, {"name": "blob", "type": "bytes"}, {"name": "opt", "type": "int32", "optional": True},
    {"name": "vals", "type": "google.protobuf.Value", "repeated": True}, {"name": "ts", "type": "google.protobuf.Timestamp"}]},
 {"name": "Resp", "fields": [{"name": "x"}]},
]
methods = [
 {"name": "Scalars", "in": "Req", "out": "Resp", "sigs": ["name,count,flag,ratio,kind,blob,opt"]},
 {"name": "Composite", "in": "Req", "out": "Resp", "sigs": ["inner,names,inners,attrs,vals,ts"]},
 {"name": "Dotted", "in": "Req", "out": "Resp", "sigs": ["inner.name,inner.deep.leaf,inner.deep.class"]},
 {"name": "TwoSigs", "in": "Req", "out": "Resp", "sigs": ["name,count", "name,flag", ""]},
 {"name": "Foreign", "in": "google.longrunning.ListOperationsRequest", "out": "google.longrunning.ListOperationsResponse", "sigs": ["name,filter,page_size"]},
 {"name": "Void", "in": "Req", "out": "google.protobuf.Empty", "sigs": ["name"]},
 {"name": "SS", "in": "Req", "out": "Resp", "ss": True, "sigs": ["name"]},
 {"name": "CS", "in": "Req", "out": "Resp", "cs": True},
 {"name": "Bidi", "in": "Req", "out": "Resp", "cs": True, "ss": True},
 {"name": "PbOut", "in": "Req", "out": "google.protobuf.Struct"},
]
api = {"files": [{"name": "acme/fl/v1/fl.proto", "package": "acme.fl.v1", "enums": [{"name": "Kind", "values": ["KIND_UNSPECIFIED", "BIG", "SMALL"]}], "messages": msgs,
   "deps": ["google/api/client.proto", "google/protobuf/empty.proto", "google/protobuf/struct.proto", "google/protobuf/timestamp.proto", "google/longrunning/operations.proto"],
   "services": [{"name": "Fl", "methods": methods}]}]}
res = build.generate(build.build_request(api, "transport=grpc,autogen-snippets=false"))
build.materialise(res, "/tmp/feas/fl"); sys.path.insert(0, "/tmp/feas/fl")
from acme import fl_v1
import grpc
from concurrent import futures
from google.longrunning import operations_pb2
from google.protobuf import struct_pb2, empty_pb2
from acme.fl_v1.services.fl.transports import FlGrpcTransport, FlGrpcAsyncIOTransport
for m in ["scalars", "composite", "dotted", "two_sigs", "foreign"]:
    ps = [p for p in inspect.signature(getattr(fl_v1.FlClient, m)).parameters][1:]
    pa = [p for p in inspect.signature(getattr(fl_v1.FlAsyncClient, m)).parameters][1:]
    print(m, ps, "ASYNC-DIFF" if ps != pa else "")
log = []
def reply(path):
    n = path.rsplit("/", 1)[1]
    if n == "Foreign": return operations_pb2.ListOperationsResponse(next_page_token="").SerializeToString()
    if n == "Void": return b""
    if n == "PbOut": s = struct_pb2.Struct(); s["a"] = 1; return s.SerializeToString()
    return fl_v1.Resp.serialize(fl_v1.Resp(x="r"))
class H(grpc.GenericRpcHandler):
    def service(self, hcd):
        path = hcd.method; n = path.rsplit("/", 1)[1]
        def uu(req, ctx): log.append((path, "uu", [req])); return reply(path)
        def us(req, ctx): log.append((path, "us", [req])); yield reply(path); yield reply(path)
        def su(it, ctx): log.append((path, "su", list(it))); return reply(path)
        def ss(it, ctx): log.append((path, "ss", list(it))); yield reply(path)
        kind = {"SS": "us", "CS": "su", "Bidi": "ss"}.get(n, "uu")
        return {"uu": grpc.unary_unary_rpc_method_handler, "us": grpc.unary_stream_rpc_method_handler, "su": grpc.stream_unary_rpc_method_handler, "ss": grpc.stream_stream_rpc_method_handler}[kind]({"uu": uu, "us": us, "su": su, "ss": ss}[kind])
srv = grpc.server(futures.ThreadPoolExecutor(max_workers=4)); srv.add_generic_rpc_handlers((H(),))
port = srv.add_insecure_port("127.0.0.1:0"); srv.start()
c = fl_v1.FlClient(transport=FlGrpcTransport(channel=grpc.insecure_channel(f"127.0.0.1:{port}")))
def dec(raw, foreign=False):
    return operations_pb2.ListOperationsRequest.FromString(raw) if foreign else fl_v1.Req.pb(fl_v1.Req.deserialize(raw))
def call(client_call):
    log.clear()
    try: r = client_call(); return ("ok", r)
    except Exception as e: return ("EXC", type(e).__name__, str(e)[:60])
import datetime
CASES = {
 "scalars": [dict(name="n", count=0, flag=False, ratio=0.0, kind=fl_v1.Kind.BIG, blob=b"", opt=0), dict(name="", count=3), dict(flag=True, opt=5)],
 "composite": [dict(inner={"name": "i"}, names=["a", "b"], inners=[{"n": 1}], attrs={"k": "v"}, vals=[1, "s"], ts=datetime.datetime(2020, 1, 1, tzinfo=datetime.timezone.utc)), dict(names=[], attrs={}), dict(inners=[fl_v1.Inner(name="z")])],
 "dotted": [dict(name="in", leaf="lf", class_="kl"), dict(leaf="only")],
 "two_sigs": [dict(name="a", count=1, flag=True)],
 "foreign": [dict(name="ops", filter="f", page_size=3)],
}
async def arun(m, kw):
    ch = grpc.aio.insecure_channel(f"127.0.0.1:{port}")
    ac = fl_v1.FlAsyncClient(transport=FlGrpcAsyncIOTransport(channel=ch))
    try: r = await getattr(ac, m)(**kw); out = ("ok", r)
    except Exception as e: out = ("EXC", type(e).__name__, str(e)[:60])
    await ch.close(); return out
for m, kws in CASES.items():
    for kw in kws:
        r1 = call(lambda: getattr(c, m)(**kw)); s1 = [x for _, _, reqs in log for x in reqs]
        log.clear(); r2 = asyncio.run(arun(m, kw)); s2 = [x for _, _, reqs in log for x in reqs]
        same = s1 == s2
        print(m, list(kw), "sync==async bytes:", same, r1[0], r2[0], "" if same else (dec(s1[0], m == "foreign") if s1 else None, dec(s2[0], m == "foreign") if s2 else None))
        if s1: print("    ", str(dec(s1[0], m == "foreign")).replace("\n", " ")[:200])
# mixed
print("mixed sync:", call(lambda: c.scalars(request={"name": "x"}, count=0)), len(log))
log.clear(); print("mixed async:", asyncio.run(arun("scalars", dict(request={"name": "x"}, count=0))), len(log))
# arities
print("void:", call(lambda: c.void(name="v")), [(p, k, len(r)) for p, k, r in log])
print("ss:", call(lambda: list(c.ss(name="v")))[1], [(p, k, len(r)) for p, k, r in log])
print("cs:", call(lambda: c.cs(requests=iter([fl_v1.Req(name="1"), fl_v1.Req(name="2")]))), [(p, k, len(r)) for p, k, r in log])
print("bidi:", call(lambda: list(c.bidi(requests=iter([fl_v1.Req(name="1")])))), [(p, k, len(r)) for p, k, r in log])
print("pbout:", call(lambda: c.pb_out(request={"name": "x"}))[1].__class__, [(p, k, len(r)) for p, k, r in log])
print("omitted:", call(lambda: c.void()), [(p, k, r) for p, k, r in log])
srv.stop(0)
