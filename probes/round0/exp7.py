import sys, json, time, random, datetime, subprocess
sys.path.insert(0, '/tmp/feas')
import build
from exp1 import base
a = base()
cfg = {"methodConfig": [
  {"name": [{"service": "acme.lib.v1.Library", "method": "GetBook"}, {"service": "acme.lib.v1.Library", "method": "ListBooks"}],
   "timeout": "60s",
   "retryPolicy": {"maxAttempts": 5, "initialBackoff": "0.1s", "maxBackoff": "1.5s", "backoffMultiplier": 1.3,
                   "retryableStatusCodes": ["UNAVAILABLE", "DEADLINE_EXCEEDED"]}},
  {"name": [{"service": "acme.lib.v1.Library", "method": "DeleteBook"}], "timeout": "7.5s"}]}
open("/tmp/feas/retry.json", "w").write(json.dumps(cfg))
res = build.generate(build.build_request(a, "transport=grpc,retry-config=/tmp/feas/retry.json,autogen-snippets=false"))
build.materialise(res, "/tmp/feas/r")
sys.path.insert(0, "/tmp/feas/r")
import grpc
from concurrent import futures
from acme import lib_v1
from acme.lib_v1.services.library.transports import LibraryGrpcTransport

# ---- virtual time
class VT:
    now = 1000.0
    sleeps = []; bounds = []
    phi = 1.0
vt = VT()
import google.api_core.retry.retry_unary as ru, google.api_core.retry.retry_base as rb, google.api_core.datetime_helpers as dh, google.api_core.timeout as to
time_real = time
class FakeTime:
    def monotonic(self): return vt.now
    def sleep(self, d): vt.sleeps.append(d); vt.now += d
ru.time = FakeTime(); rb.time = FakeTime()
class FakeRandom:
    def uniform(self, lo, hi): vt.bounds.append((lo, hi)); return hi * vt.phi
rb.random = FakeRandom()
_epoch = datetime.datetime(2020,1,1, tzinfo=datetime.timezone.utc)
dh.utcnow = lambda: _epoch + datetime.timedelta(seconds=vt.now)

# ---- recording proxy
class RecMC:
    def __init__(self, inner, kind, path, log): self.inner, self.kind, self.path, self.log = inner, kind, path, log
    def __call__(self, *a, **k): self.log.append(("call", self.kind, self.path, k.get("timeout"))); return self.inner(*a, **k)
    def with_call(self, *a, **k): self.log.append(("call", self.kind, self.path, k.get("timeout"))); return self.inner.with_call(*a, **k)
    def future(self, *a, **k): self.log.append(("call", self.kind, self.path, k.get("timeout"))); return self.inner.future(*a, **k)
class RecChannel(grpc.Channel):
    def __init__(self, inner): self.inner = inner; self.log = []
    def _mk(self, kind, method, *a, **k):
        self.log.append(("factory", kind, method)); return RecMC(getattr(self.inner, kind)(method, *a, **k), kind, method, self.log)
    def unary_unary(self, m, *a, **k): return self._mk("unary_unary", m, *a, **k)
    def unary_stream(self, m, *a, **k): return self._mk("unary_stream", m, *a, **k)
    def stream_unary(self, m, *a, **k): return self._mk("stream_unary", m, *a, **k)
    def stream_stream(self, m, *a, **k): return self._mk("stream_stream", m, *a, **k)
    def subscribe(self, *a, **k): return self.inner.subscribe(*a, **k)
    def unsubscribe(self, *a, **k): return self.inner.unsubscribe(*a, **k)
    def close(self): self.inner.close()
    def __enter__(self): return self
    def __exit__(self, *a): self.close()

script = []
class H(grpc.GenericRpcHandler):
    def service(self, hcd):
        def uu(req, ctx):
            code = script.pop(0)
            if code != "OK": ctx.abort(getattr(grpc.StatusCode, code), "scripted")
            return lib_v1.Book.serialize(lib_v1.Book(name="x"))
        return grpc.unary_unary_rpc_method_handler(uu)
srv = grpc.server(futures.ThreadPoolExecutor(max_workers=2)); srv.add_generic_rpc_handlers((H(),))
port = srv.add_insecure_port("127.0.0.1:0"); srv.start()
ch = RecChannel(grpc.insecure_channel(f"127.0.0.1:{port}"))
c = lib_v1.LibraryClient(transport=LibraryGrpcTransport(channel=ch))
def run(scr, call):
    script[:] = scr; vt.sleeps.clear(); vt.bounds.clear(); ch.log[:] = [e for e in ch.log if e[0] == "x"]; vt.now = 1000.0
    try: r = ("ok", call().__class__.__name__)
    except Exception as e: r = ("raise", type(e).__name__)
    print(scr, r, "sleeps", [round(s,3) for s in vt.sleeps], "bounds", [(l, round(h,3)) for l,h in vt.bounds], "timeouts", [round(e[3],3) if e[3] else e[3] for e in ch.log if e[0]=="call"])
run(["UNAVAILABLE", "DEADLINE_EXCEEDED", "UNAVAILABLE", "OK"], lambda: c.get_book(name="shelves/1/books/2"))
run(["UNAVAILABLE", "NOT_FOUND"], lambda: c.get_book(name="shelves/1/books/2"))
run(["UNAVAILABLE"], lambda: c.delete_book(name="shelves/1/books/2"))
run(["UNAVAILABLE"], lambda: c.move_book(name="shelves/1/books/2"))
vt.phi = 1.0
run(["UNAVAILABLE"]*80 + ["OK"], lambda: c.get_book(name="shelves/1/books/2"))
srv.stop(0)
