import sys, asyncio, importlib.util, glob, os, json
sys.path.insert(0, "/tmp/feas/m")
import grpc
from concurrent import futures
from acme import lib_v1
from google.longrunning import operations_pb2
from google.protobuf import any_pb2
import google.auth
from google.auth import credentials as gac
from google.api_core import grpc_helpers, grpc_helpers_async
log = []
class H(grpc.GenericRpcHandler):
    def service(self, hcd):
        path = hcd.method; name = path.rsplit("/", 1)[1]
        def reply_one():
            if name == "ImportBooks" :
                resp = any_pb2.Any(); resp.Pack(lib_v1.ImportBooksResponse.pb(lib_v1.ImportBooksResponse(count=7)))
                return operations_pb2.Operation(name="operations/1", done=True, response=resp).SerializeToString()
            if name == "ListBooks": return lib_v1.ListBooksResponse.serialize(lib_v1.ListBooksResponse(books=[lib_v1.Book(name="a")]))
            if name == "Upload": return lib_v1.ImportBooksResponse.serialize(lib_v1.ImportBooksResponse(count=1))
            if name == "DeleteBook": return b""
            return lib_v1.Book.serialize(lib_v1.Book(name="b"))
        def uu(req, ctx): log.append((path, [req])); return reply_one()
        def us(req, ctx): log.append((path, [req])); yield reply_one(); yield reply_one()
        def su(it, ctx): log.append((path, list(it))); return reply_one()
        def ss(it, ctx): log.append((path, list(it))); yield reply_one()
        kind = {"StreamBooks": "us", "Chat": "ss", "Upload": "su"}.get(name, "uu")
        return {"uu": grpc.unary_unary_rpc_method_handler, "us": grpc.unary_stream_rpc_method_handler, "su": grpc.stream_unary_rpc_method_handler, "ss": grpc.stream_stream_rpc_method_handler}[kind]({"uu": uu, "us": us, "su": su, "ss": ss}[kind])
srv = grpc.server(futures.ThreadPoolExecutor(max_workers=4)); srv.add_generic_rpc_handlers((H(),))
port = srv.add_insecure_port("127.0.0.1:0"); srv.start()
google.auth.default = lambda *a, **k: (gac.AnonymousCredentials(), None)
grpc_helpers.create_channel = lambda *a, **k: grpc.insecure_channel(f"127.0.0.1:{port}")
grpc_helpers_async.create_channel = lambda *a, **k: grpc.aio.insecure_channel(f"127.0.0.1:{port}")
ok = bad = 0
for f in sorted(glob.glob("/tmp/feas/m/samples/generated_samples/*.py")):
    spec = importlib.util.spec_from_file_location("s", f); mod = importlib.util.module_from_spec(spec); spec.loader.exec_module(mod)
    fn = [getattr(mod, n) for n in dir(mod) if n.startswith("sample_")][0]
    n0 = len(log)
    try:
        if asyncio.iscoroutinefunction(fn): asyncio.run(fn())
        else: fn()
        ok += 1; status = "ok"
    except Exception as e:
        bad += 1; status = "EXC " + repr(e)[:150]
    print(os.path.basename(f)[:60].ljust(60), status, [p.rsplit('/',1)[1] for p, _ in log[n0:]])
print(ok, bad)
srv.stop(0)
