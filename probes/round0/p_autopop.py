import sys, yaml, subprocess
sys.path.insert(0, '/tmp/feas')
import build
from exp1 import base
from exp2 import svc, M
a = base(); M(a, "CreateBookRequest")["fields"].append({"name": "request_id", "uuid4": True})
y = {"type": "google.api.Service", "config_version": 3, "name": "lib.example.com", "apis": [{"name": "acme.lib.v1.Library"}], "publishing": {"method_settings": [{"selector": "acme.lib.v1.Library.CreateBook", "auto_populated_fields": ["request_id"]}]}}
open("/tmp/feas/y_ap.yaml", "w").write(yaml.safe_dump(y))
res = build.generate(build.build_request(a, "transport=grpc+rest,service-yaml=/tmp/feas/y_ap.yaml")); build.materialise(res, "/tmp/feas/apx")
r = subprocess.run([sys.executable, '-m', 'pytest', '-q', '-p', 'no:cacheprovider', 'tests/unit', '--tb=short', '-x'], cwd="/tmp/feas/apx", capture_output=True, text=True)
print(r.stdout[-3500:])
