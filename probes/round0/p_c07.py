import sys, itertools, collections
sys.path.insert(0, '/tmp/feas')
import build
from gapic.schema import api as gapi
from gapic.utils import Options
PT = {"absent": None, "string": "string", "int32": "int32", "bytes": "bytes"}
PS = {"absent": None, "int32": "int32", "int64": "int64", "uint32": "uint32", "string": "string", "Int32Value": "google.protobuf.Int32Value", "bool": "bool"}
MR = {"absent": None, "int32": "int32", "uint32": "uint32", "string": "string", "Int32Value": "google.protobuf.Int32Value", "UInt32Value": "google.protobuf.UInt32Value", "Int64Value": "google.protobuf.Int64Value"}
NPT = {"absent": None, "string": "string", "int32": "int32"}
REP = {"none": [], "msg": [("items", "Item", "rep")], "scalar": [("names", "string", "rep")], "map": [("by", "map:string,Item", "map")], "scalar+msg": [("names", "string", "rep"), ("items", "Item", "rep")],
       "msg+scalar": [("items", "Item", "rep"), ("names", "string", "rep")], "single-msg": [("item", "Item", "single")]}
INT = {"int32", "int64", "uint32"}
def spec_paged(pt, ps, mr, npt, rep):
    size_ok = ps in INT or mr in INT or mr in ("Int32Value", "UInt32Value")
    first_rep = next((n for n, t, k in REP[rep] if k in ("rep", "map")), None)
    return first_rep if (pt == "string" and size_ok and npt == "string" and first_rep) else None
cases = list(itertools.product(PT, PS, MR, NPT, REP))
msgs = [{"name": "Item", "fields": [{"name": "name"}]}]; methods = []; exp = {}
for i, (pt, ps, mr, npt, rep) in enumerate(cases):
    rf = [{"name": "parent"}]
    if PT[pt]: rf.append({"name": "page_token", "type": PT[pt]})
    if PS[ps]: rf.append({"name": "page_size", "type": PS[ps]})
    if MR[mr]: rf.append({"name": "max_results", "type": MR[mr]})
    of = []
    for n, t, k in REP[rep]: of.append({"name": n, "type": t, "repeated": k == "rep"})
    if NPT[npt]: of.append({"name": "next_page_token", "type": NPT[npt]})
    of.append({"name": "total", "type": "int32"})
    msgs += [{"name": f"Req{i}", "fields": rf}, {"name": f"Resp{i}", "fields": of}]
    methods.append({"name": f"List{i}", "in": f"Req{i}", "out": f"Resp{i}"}); exp[f"List{i}"] = spec_paged(pt, ps, mr, npt, rep)
api = {"files": [{"name": "acme/pg/v1/pg.proto", "package": "acme.pg.v1", "deps": ["google/api/client.proto", "google/protobuf/wrappers.proto"], "messages": msgs, "services": [{"name": "Pg", "methods": methods}]}]}
req = build.build_request(api, "")
s = gapi.API.build(req.proto_file, opts=Options.build(""), package="acme.pg.v1")
bad = collections.Counter(); ex = {}
for (pt, ps, mr, npt, rep), (name, m) in zip(cases, s.services["acme.pg.v1.Pg"].methods.items()):
    got = m.paged_result_field.name if m.paged_result_field else None
    if got != exp[name]:
        k = f"spec={'paged' if exp[name] else 'plain'} code={'paged' if got else 'plain'}"
        bad[k] += 1; ex.setdefault(k, []).append((pt, ps, mr, npt, rep, exp[name], got))
print(len(cases), "shapes;", dict(bad))
for k, v in ex.items():
    print(k, "e.g.", v[:4]); print("   distinct (ps, mr):", sorted(set((x[1], x[2]) for x in v)))
