SPECIFICATION Spec
INVARIANT Emit
