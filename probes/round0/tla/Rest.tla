---- MODULE Rest ----
EXTENDS Naturals, Sequences, FiniteSets, TLC
\* Leaves of the request message: dotted paths as sequences of field names.
CONSTANTS Leaves,      \* set of leaf paths, e.g. {<<"name">>, <<"book","name">>, <<"book","title">>, <<"mask">>}
          Required,    \* subset of Leaves (top-level scalars) annotated REQUIRED
          Bindings     \* sequence of [verb, vars (set of leaf paths), body ("" | "*" | top-level field name)]
VARIABLES req,         \* set of populated leaves (abstract valuation; values irrelevant for placement)
          matchable,   \* for each populated path variable: does its value match the segment pattern
          phase, chosen, place, extra
vars == <<req, matchable, phase, chosen, place, extra>>

Under(p, f) == Len(p) >= 1 /\ p[1] = f
Init == /\ req \in SUBSET Leaves /\ matchable \in [Leaves -> BOOLEAN]
        /\ phase = "start" /\ chosen = 0 /\ place = [l \in {} |-> ""] /\ extra = {}

Eligible(i) == \A v \in Bindings[i].vars : v \in req /\ matchable[v]
Select == /\ phase = "start"
          /\ IF \E i \in 1..Len(Bindings) : Eligible(i)
             THEN /\ chosen' = CHOOSE i \in 1..Len(Bindings) : Eligible(i) /\ \A j \in 1..(i-1) : ~Eligible(j)
                  /\ phase' = "selected"
             ELSE /\ chosen' = 0 /\ phase' = "refused"
          /\ UNCHANGED <<req, matchable, place, extra>>
Loc(b, l) == IF l \in b.vars THEN "path"
             ELSE IF b.body = "*" THEN "body"
             ELSE IF b.body # "" /\ Under(l, b.body) THEN "body"
             ELSE "query"
Place == /\ phase = "selected"
         /\ place' = [l \in req |-> Loc(Bindings[chosen], l)]
         \* required scalars that are not path/body and not populated travel as defaulted query params
         /\ extra' = {l \in Required \ req : Loc(Bindings[chosen], l) = "query"}
         /\ phase' = "placed"
         /\ UNCHANGED <<req, matchable, chosen>>
Next == Select \/ Place
Spec == Init /\ [][Next]_vars

\* --- the property, on the spec
NoLoss == phase = "placed" => DOMAIN place = req
BodyStar == phase = "placed" /\ Bindings[chosen].body = "*" => \A l \in req : place[l] # "query"
PathOnlyVars == phase = "placed" => \A l \in req : (place[l] = "path") <=> (l \in Bindings[chosen].vars)
RequiredTravel == phase = "placed" => \A l \in Required : Loc(Bindings[chosen], l) = "query" => (l \in req \/ l \in extra)
RefusedOnlyIfNone == phase = "refused" => \A i \in 1..Len(Bindings) : ~Eligible(i)
FirstWins == phase \in {"selected","placed"} => Eligible(chosen) /\ \A j \in 1..(chosen-1) : ~Eligible(j)
====
