---- MODULE PagerTrace ----
EXTENDS Pager, IOUtils, TLCExt
VARIABLES tid, l
Traces == JsonDeserialize(IOEnv.TRACE_FILE)
N == Len(Traces)
tvars == <<vars, tid, l>>
Ev == Traces[tid].events
ResetFor(t) == /\ history' = Traces[t].history /\ cursor' = 0 /\ pending' = <<>> /\ yielded' = <<>>
               /\ reqTokens' = <<>> /\ done' = FALSE /\ nextItem' = 1
TInit == /\ tid = 1 /\ l = 1 /\ history = Traces[1].history /\ cursor = 0 /\ pending = <<>> /\ yielded = <<>>
         /\ reqTokens = <<>> /\ done = FALSE /\ nextItem = 1
IsEvent(e) == tid <= N /\ l <= Len(Ev) /\ Ev[l].ev = e /\ l' = l + 1 /\ tid' = tid
TFirst == IsEvent("first") /\ FirstCall /\ Ev[l].token = 0
TYield == IsEvent("yield") /\ YieldItem /\ Ev[l].item = Head(pending)
TFetch == IsEvent("fetch") /\ FetchNext /\ Ev[l].token = Token(history, cursor)
TStop  == IsEvent("stop") /\ Stop
TNextTrace == /\ tid <= N /\ l = Len(Ev) + 1 /\ done
              /\ TLCSet(1, tid)
              /\ tid' = tid + 1 /\ l' = 1
              /\ IF tid + 1 <= N THEN ResetFor(tid + 1) ELSE UNCHANGED vars
TNext == TFirst \/ TYield \/ TFetch \/ TStop \/ TNextTrace
TSpec == TInit /\ [][TNext]_tvars
Accepted == TLCGet(1) = N
====
