---- MODULE Pager ----
EXTENDS Naturals, Sequences, TLC, Json, FiniteSets, SequencesExt
CONSTANTS MaxPages, MaxSize
\* A history is a sequence of page sizes; tokens are page indices ("" = 0 on the last page).
VARIABLES history, cursor, pending, yielded, reqTokens, done, nextItem
vars == <<history, cursor, pending, yielded, reqTokens, done, nextItem>>

Sizes == 0..MaxSize
\* item ids are global positions 1..N so order/duplication is observable
PageItems(h, i) == LET before == FoldLeft(LAMBDA a, b: a + b, 0, SubSeq(h, 1, i-1))
                   IN [k \in 1..h[i] |-> before + k]
Token(h, i) == IF i = Len(h) THEN 0 ELSE i      \* server's next_page_token after page i

Init == /\ history \in UNION {[1..n -> Sizes] : n \in 1..MaxPages}
        /\ cursor = 0 /\ pending = <<>> /\ yielded = <<>> /\ reqTokens = <<>> /\ done = FALSE /\ nextItem = 1

FirstCall == /\ cursor = 0
             /\ cursor' = 1 /\ reqTokens' = <<0>> /\ pending' = PageItems(history, 1)
             /\ UNCHANGED <<history, yielded, done, nextItem>>
YieldItem == /\ cursor > 0 /\ pending # <<>>
             /\ yielded' = Append(yielded, Head(pending)) /\ pending' = Tail(pending)
             /\ UNCHANGED <<history, cursor, reqTokens, done, nextItem>>
FetchNext == /\ cursor > 0 /\ pending = <<>> /\ ~done /\ Token(history, cursor) # 0
             /\ reqTokens' = Append(reqTokens, Token(history, cursor))
             /\ cursor' = cursor + 1 /\ pending' = PageItems(history, cursor + 1)
             /\ UNCHANGED <<history, yielded, done, nextItem>>
Stop == /\ cursor > 0 /\ pending = <<>> /\ ~done /\ Token(history, cursor) = 0
        /\ done' = TRUE /\ UNCHANGED <<history, cursor, pending, yielded, reqTokens, nextItem>>
Next == FirstCall \/ YieldItem \/ FetchNext \/ Stop
Spec == Init /\ [][Next]_vars /\ WF_vars(Next)

Total(h) == FoldLeft(LAMBDA a, b: a + b, 0, h)
Inv_Order == yielded \o pending = [k \in 1..(Len(yielded) + Len(pending)) |-> k]
Inv_Done == done => /\ Len(yielded) = Total(history) /\ cursor = Len(history)
Inv_Tokens == \A i \in 2..Len(reqTokens) : reqTokens[i] = i - 1
Live == <>done
Emit == done => PrintT(<<"CASE", ToJson([history |-> history, yielded |-> yielded, reqTokens |-> reqTokens])>>)
====
