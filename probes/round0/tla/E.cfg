CONSTANTS Alphabet = {"w3", "w9", "sp", "tab", "nl", "li", "col", "q"} MaxLen = 5 Widths = {10, 20, 40}
SPECIFICATION Spec
INVARIANT Emit
