CONSTANTS MaxPages = 5 MaxSize = 3
SPECIFICATION Spec
INVARIANT Emit
