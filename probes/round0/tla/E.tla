---- MODULE E ----
EXTENDS Naturals, Sequences, TLC, Json, FiniteSets, SequencesExt
CONSTANTS Alphabet, MaxLen, Widths
VARIABLES text, w, phase
vars == <<text, w, phase>>
Strings(n) == UNION {[1..k -> Alphabet] : k \in 0..n}
Init == text \in Strings(MaxLen) /\ w \in Widths /\ phase = "in"
Done == phase = "in" /\ phase' = "done" /\ UNCHANGED <<text, w>>
Next == Done
Spec == Init /\ [][Next]_vars
Emit == phase = "done" => PrintT(<<"CASE", ToJson([text |-> text, w |-> w])>>)
====
