SPECIFICATION Spec
INVARIANT DefaultOk
INVARIANT OneTypesModulePerFile
INVARIANT OneSvcPkgPerService
INVARIANT NoUnrequestedTransport
