CONSTANTS
  Leaves <- MCLeaves
  Required <- MCRequired
  Bindings <- MCBindings
SPECIFICATION Spec
INVARIANT NoLoss
INVARIANT BodyStar
INVARIANT PathOnlyVars
INVARIANT RequiredTravel
INVARIANT RefusedOnlyIfNone
INVARIANT FirstWins
