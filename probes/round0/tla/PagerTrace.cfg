CONSTANTS MaxPages = 5 MaxSize = 3
SPECIFICATION TSpec
INVARIANT Inv_Order
INVARIANT Inv_Tokens
POSTCONDITION Accepted
CHECK_DEADLOCK FALSE
