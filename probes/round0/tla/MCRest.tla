---- MODULE MCRest ----
EXTENDS Rest
MCLeaves == { <<"name">>, <<"parent">>, <<"book","name">>, <<"book","title">>, <<"mask">>, <<"force">> }
MCRequired == { <<"name">>, <<"force">> }
MCBindings == << [verb |-> "patch", vars |-> { <<"book","name">> }, body |-> "book"],
                 [verb |-> "post", vars |-> { <<"parent">> }, body |-> "*"],
                 [verb |-> "get", vars |-> { <<"name">> }, body |-> ""] >>
====
