---- MODULE Pipe ----
EXTENDS Naturals, Sequences, FiniteSets, TLC, Json, SequencesExt
\* ---------- vocabulary (hand-written finite tables)
Pkgs == { <<"acme","lib","v1">>, <<"acme","lib","v1beta1">>, <<"big","corp","lib","v1p1beta1">>, <<"acme","lib">> }
IsVersion(s) == s \in {"v1", "v1beta1", "v1p1beta1"}
SvcNames == { [camel |-> "Library", snake |-> "library"], [camel |-> "BookAdmin", snake |-> "book_admin"] }
FileNames == { [proto |-> "lib", mod |-> "lib"], [proto |-> "My.File", mod |-> "my_file"], [proto |-> "import", mod |-> "import_"], [proto |-> "metadata", mod |-> "metadata_"] }
Transports == { <<"grpc">>, <<"rest">>, <<"grpc","rest">> }
MethodKinds == {"unary", "paged", "lro", "sstream"}

VARIABLES api, opts, stage, naming, out
vars == <<api, opts, stage, naming, out>>

\* ---------- input space: one or two target files, 0..2 services placed in the last file, 1..2 methods each
Init ==
  /\ api \in [ pkg : Pkgs,
               files : {<<f>> : f \in FileNames} \cup {p \in FileNames \X FileNames : p[1] # p[2]},
               svcs : {<<>>} \cup {<<s>> : s \in SvcNames} \cup {p \in SvcNames \X SvcNames : p[1] # p[2]},
               kinds : {<<k>> : k \in MethodKinds} \cup {<<"unary", k>> : k \in MethodKinds \ {"unary"}},
               depfile : BOOLEAN ]
  /\ opts \in [ transport : Transports, metadata : BOOLEAN, snippets : BOOLEAN ]
  /\ stage = "start" /\ naming = [x |-> 0] /\ out = [x |-> 0]

\* ---------- BuildNaming: namespace / name / version from the package
BuildNaming ==
  /\ stage = "start"
  /\ LET p == api.pkg
         hasV == IsVersion(Last(p))
         core == IF hasV THEN SubSeq(p, 1, Len(p) - 1) ELSE p
         name == Last(core)
         ns == SubSeq(core, 1, Len(core) - 1)
         ver == IF hasV THEN Last(p) ELSE ""
     IN naming' = [ns |-> ns, name |-> name, version |-> ver,
                   versioned |-> IF ver = "" THEN name ELSE name \o "_" \o ver]
  /\ stage' = "named" /\ UNCHANGED <<api, opts, out>>

\* ---------- Render: predicted observables
Root == naming.ns \o <<naming.versioned>>
TypesModules == { Root \o <<"types", f.mod \o ".py">> : f \in Range(api.files) }
ServicePkgs == { Root \o <<"services", s.snake>> : s \in Range(api.svcs) }
TransportFiles(s) ==
  LET base == Root \o <<"services", s.snake, "transports">>
      has(t) == \E i \in 1..Len(opts.transport) : opts.transport[i] = t
  IN  {base \o <<"__init__.py">>, base \o <<"base.py">>}
      \cup (IF has("grpc") THEN {base \o <<"grpc.py">>, base \o <<"grpc_asyncio.py">>} ELSE {})
      \cup (IF has("rest") THEN {base \o <<"rest.py">>, base \o <<"rest_base.py">>} ELSE {})
Clients(s) == {s.camel \o "Client"} \cup (IF \E i \in 1..Len(opts.transport) : opts.transport[i] = "grpc" THEN {s.camel \o "AsyncClient"} ELSE {})
Registry == LET has(t) == \E i \in 1..Len(opts.transport) : opts.transport[i] = t
            IN (IF has("grpc") THEN <<"grpc", "grpc_asyncio">> ELSE <<>>) \o (IF has("rest") THEN <<"rest">> ELSE <<>>)
HasPager(s) == \E i \in 1..Len(api.kinds) : api.kinds[i] = "paged"
Render ==
  /\ stage = "named"
  /\ out' = [ root |-> Root,
              types |-> TypesModules,
              svcpkgs |-> ServicePkgs,
              transports |-> UNION {TransportFiles(s) : s \in Range(api.svcs)},
              clients |-> UNION {Clients(s) : s \in Range(api.svcs)},
              registry |-> Registry,
              pagers |-> IF HasPager(0) THEN {Root \o <<"services", s.snake, "pagers.py">> : s \in Range(api.svcs)} ELSE {},
              metadataJson |-> opts.metadata /\ TRUE,
              snippetMeta |-> opts.snippets /\ api.svcs # <<>> ]
  /\ stage' = "done" /\ UNCHANGED <<api, opts, naming>>
Next == BuildNaming \/ Render
Spec == Init /\ [][Next]_vars

\* ---------- properties of the predicted output (C01 / C11 flavour)
DefaultOk == stage = "done" /\ out.registry # <<>> =>
               out.registry[1] = (IF \E i \in 1..Len(opts.transport) : opts.transport[i] = "grpc" THEN "grpc" ELSE "rest")
OneTypesModulePerFile == stage = "done" => Cardinality(out.types) = Len(api.files)
OneSvcPkgPerService == stage = "done" => Cardinality(out.svcpkgs) = Len(api.svcs)
NoUnrequestedTransport == stage = "done" => \A f \in out.transports :
    (Last(f) \in {"rest.py", "rest_base.py"} => \E i \in 1..Len(opts.transport) : opts.transport[i] = "rest")
 /\ (Last(f) \in {"grpc.py", "grpc_asyncio.py"} => \E i \in 1..Len(opts.transport) : opts.transport[i] = "grpc")
Emit == stage = "done" => PrintT(<<"CASE", ToJson([api |-> api, opts |-> opts, expect |-> out])>>)
====
