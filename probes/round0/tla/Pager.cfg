CONSTANTS MaxPages = 5 MaxSize = 3
SPECIFICATION Spec
INVARIANT Inv_Order
INVARIANT Inv_Done
INVARIANT Inv_Tokens
PROPERTY Live
