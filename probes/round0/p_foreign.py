import sys, traceback
sys.path.insert(0, "/tmp/feas/fl")
from acme import fl_v1
import grpc
from concurrent import futures
from google.longrunning import operations_pb2
from acme.fl_v1.services.fl.transports import FlGrpcTransport
class H(grpc.GenericRpcHandler):
    def service(self, hcd):
        return grpc.unary_unary_rpc_method_handler(lambda req, ctx: operations_pb2.ListOperationsResponse(operations=[operations_pb2.Operation(name="o1")]).SerializeToString())
srv = grpc.server(futures.ThreadPoolExecutor(max_workers=2)); srv.add_generic_rpc_handlers((H(),))
port = srv.add_insecure_port("127.0.0.1:0"); srv.start()
c = fl_v1.FlClient(transport=FlGrpcTransport(channel=grpc.insecure_channel(f"127.0.0.1:{port}")))
try:
    r = c.foreign(name="ops"); print(type(r), [o.name for o in r])
except Exception: traceback.print_exc()
srv.stop(0)
