import itertools, sys, re, collections
from gapic.utils.lines import wrap
TOK = {"w3": "abc", "w9": "abcdefghi", "w30": "x"*30, "sp": " ", "sp2": "  ", "tab": "\t", "nl": "\n", "nlsp": "\n ", "blank": "\n\n",
       "li": "- ", "num": "1. ", "col": "foo:", "q": '"', "dash": "a-b"}
def words(s): return s.split()
bad = collections.Counter(); examples = {}
n = 0
for L in range(1, 6):
    for toks in itertools.product(TOK, repeat=L):
        text = "".join(TOK[t] for t in toks)
        for width, indent, offset in ((10, 0, 0), (20, 4, 0), (20, 0, 8), (40, 8, 12), (72, 4, 7)):
            n += 1
            try:
                out = wrap(text, width, indent=indent, offset=offset)
            except Exception as e:
                k = "EXC " + type(e).__name__; bad[k] += 1; examples.setdefault(k, (text, width, indent, offset, repr(e))); continue
            if words(out) != words(text):
                k = "words"; bad[k] += 1; examples.setdefault(k, (text, width, indent, offset, out)); continue
            lines = out.split("\n")
            for i, ln in enumerate(lines):
                lim = width - offset if i == 0 else width
                if len(ln.expandtabs()) > lim and len(ln.split()) > 1:
                    k = "width-first" if i == 0 else "width"; bad[k] += 1; examples.setdefault(k, (text, width, indent, offset, out)); break
print(n, dict(bad))
for k, v in examples.items(): print(k, [repr(x) for x in v])
