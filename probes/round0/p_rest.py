import sys, itertools, re, collections, json, threading, urllib.parse
sys.path.insert(0, '/tmp/feas')
import build
NUM = "numeric" in sys.argv
msgs = [
 {"name": "Inner", "fields": [{"name": "name"}, {"name": "title"}, {"name": "count", "type": "int32"}, {"name": "kind", "type": "enum:Kind"}, {"name": "tags", "repeated": True}]},
 {"name": "Req", "fields": [{"name": "name"}, {"name": "parent"}, {"name": "inner", "type": "Inner"}, {"name": "mask", "type": "google.protobuf.FieldMask"},
    {"name": "force", "type": "bool", "required": True}, {"name": "limit", "type": "int64", "required": True}, {"name": "ratio", "type": "double", "required": True},
    {"name": "label", "required": True}, {"name": "kind", "type": "enum:Kind", "required": True}, {"name": "ids", "type": "int32", "repeated": True}, {"name": "class"},
    {"name": "opt", "type": "int32", "optional": True}, {"name": "attrs", "type": "map:string,string"}]},
 {"name": "Resp", "fields": [{"name": "name"}, {"name": "kind", "type": "enum:Kind"}, {"name": "n", "type": "int64"}]},
]
M = lambda name, http: {"name": name, "in": "Req", "out": "Resp", "http": http}
methods = [
 M("GetIt", [{"verb": "get", "uri": "/v1/{name=items/*}"}]),
 M("PostStar", [{"verb": "post", "uri": "/v1/{parent=shelves/*}/items", "body": "*"}]),
 M("PatchInner", [{"verb": "patch", "uri": "/v1/{inner.name=items/*}", "body": "inner"}]),
 M("PutTwoVars", [{"verb": "put", "uri": "/v1/{parent=shelves/*}/x/{name}", "body": "inner"}]),
 M("DelAdd", [{"verb": "delete", "uri": "/v1/{name=items/*}"}, {"verb": "delete", "uri": "/v1/{parent=shelves/*}/items"}, {"verb": "post", "uri": "/v1/{inner.name=items/*}:del", "body": "*"}]),
 M("ResWord", [{"verb": "get", "uri": "/v1/{class=items/*}"}]),
 M("MultiSeg", [{"verb": "get", "uri": "/v1/{name=items/**}"}]),
 {"name": "NoRule", "in": "Req", "out": "Resp"},
]
api = {"files": [{"name": "acme/rs/v1/rs.proto", "package": "acme.rs.v1", "enums": [{"name": "Kind", "values": ["KIND_UNSPECIFIED", "BIG", "SMALL"]}], "messages": msgs,
        "services": [{"name": "Rs", "methods": methods}]}]}
opts = "transport=rest,autogen-snippets=false" + (",rest-numeric-enums" if NUM else "")
res = build.generate(build.build_request(api, opts))
build.materialise(res, "/tmp/feas/rs" + ("n" if NUM else "")); sys.path.insert(0, "/tmp/feas/rs" + ("n" if NUM else ""))
from acme import rs_v1
from http.server import BaseHTTPRequestHandler, HTTPServer
from google.auth import credentials as gac
from acme.rs_v1.services.rs.transports import RsRestTransport
log = []
class Hd(BaseHTTPRequestHandler):
    def _do(self):
        n = int(self.headers.get('Content-Length') or 0); body = self.rfile.read(n)
        u = urllib.parse.urlsplit(self.path)
        log.append((self.command, u.path, urllib.parse.parse_qsl(u.query, keep_blank_values=True), body))
        out = json.dumps({"name": "r", "kind": 2 if NUM else "SMALL", "n": "7", "unknownField": 1}).encode()
        self.send_response(200); self.send_header('Content-Type', 'application/json'); self.send_header('Content-Length', str(len(out))); self.end_headers(); self.wfile.write(out)
    do_GET = do_POST = do_PATCH = do_PUT = do_DELETE = _do
    def log_message(self, *a): pass
srv = HTTPServer(("127.0.0.1", 0), Hd); threading.Thread(target=srv.serve_forever, daemon=True).start()
c = rs_v1.RsClient(transport=RsRestTransport(host=f"127.0.0.1:{srv.server_port}", url_scheme="http", credentials=gac.AnonymousCredentials()))
def show(m, req):
    log.clear()
    try:
        r = getattr(c, m)(request=req); out = ("ok", r.name, int(r.kind), r.n)
    except Exception as e:
        out = ("EXC", type(e).__name__, str(e)[:80])
    print(m, json.dumps(req)[:120]); print("   ->", out)
    for e in log: print("   ", e[0], e[1], e[2], e[3][:200])
show("get_it", {"name": "items/1"})
show("get_it", {"name": "items/1", "force": True, "limit": 5, "ratio": 0.5, "label": "L", "kind": "BIG", "ids": [1, 2], "inner": {"title": "t", "tags": ["a", "b"], "kind": "SMALL"}, "opt": 0, "attrs": {"k": "v"}, "mask": "a,b"})
show("post_star", {"parent": "shelves/1", "name": "n", "inner": {"name": "in"}, "kind": "BIG"})
show("patch_inner", {"inner": {"name": "items/2", "title": "T", "kind": "BIG"}, "name": "q", "mask": "title"})
show("put_two_vars", {"parent": "shelves/1", "name": "nm", "inner": {"title": "x"}})
show("del_add", {"name": "items/1"}); show("del_add", {"parent": "shelves/9"}); show("del_add", {"inner": {"name": "items/3"}, "label": "z"}); show("del_add", {"label": "nothing"})
show("res_word", {"class_": "items/1"})
show("multi_seg", {"name": "items/a/b c/d"})
show("no_rule", {"name": "x"})
show("get_it", {"name": "bad/1"})
srv.shutdown()
