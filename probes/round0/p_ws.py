import itertools, ast, collections
from gapic.generator.formatter import fix_whitespace
# line kinds for a small grammar of Python source layouts
K = {
 "imp": "import os\n", "blank": "\n", "blank_sp": "    \n", "cls": "class A:\n", "doc": '    """Doc.\n\n    More.\n    """\n',
 "meth": "    def f(self):\n", "body": "        return 1\n", "body_trail": "        x = 1   \n", "deco": "    @property\n", "cmt": "# top comment\n",
 "icmt": "    # inner comment\n", "topdef": "def g():\n", "tbody": "    return 2\n", "und": "_x = 3\n", "assign": "y = 4\n",
 "str_blank": 's = """a\n\n\n\nb"""\n', "nested": "        def h():\n", "nbody": "            pass\n", "ifmain": "if y:\n", "ibody": "    y = 5\n",
}
def norm(src):
    try: return ast.dump(ast.parse(src))
    except SyntaxError: return None
bad = collections.Counter(); ex = {}
n = 0
keys = list(K)
for L in range(1, 5):
    for ks in itertools.product(keys, repeat=L):
        src = "".join(K[k] for k in ks)
        a = norm(src)
        if a is None: continue
        n += 1
        out = fix_whitespace(src)
        b = norm(out)
        def rec(k):
            bad[k] += 1
            if k not in ex or len(src) < len(ex[k][0]): ex[k] = (src, out)
        if b is None: rec("syntax")
        elif a != b:
            # tolerate whitespace changes inside string literals
            import re
            def strip_strs(d): return re.sub(r"Constant\(value='(?:[^'\\]|\\.)*'", "Constant(value=S", d)
            if strip_strs(a) != strip_strs(b): rec("ast")
            else: rec("string-literal-ws")
        if fix_whitespace(out) != out: rec("idempotence")
        if not out.endswith("\n") or out.endswith("\n\n"): rec("final-newline")
        if any(l.endswith(" ") for l in out.split("\n")): rec("trailing-blank")
print(n, dict(bad))
for k, v in ex.items(): print("==", k); print(repr(v[0])); print(repr(v[1]))
