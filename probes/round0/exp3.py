import json, sys, copy, time, traceback, os, yaml
sys.path.insert(0, '/tmp/feas')
import build
from exp1 import base
def svc(a): return [f for f in a['files'] if f['name'].endswith('lib.proto')][0]['services'][0]
def M(a,name): return next(m for f in a['files'] for m in f.get('messages',[]) if m['name']==name)
from concurrent.futures import ProcessPoolExecutor
V = {}
def variant(f): V[f.__name__] = f; return f

@variant
def repeated_msg_body(a):
    M(a, "CreateBookRequest")["fields"].append({"name": "extra_books", "type": "Book", "repeated": True})
    svc(a)["methods"][1]["http"] = [{"verb": "post", "uri": "/v1/{parent=shelves/*}/books", "body": "extra_books"}]
    svc(a)["methods"][1]["sigs"] = ["parent,extra_books"]
@variant
def lro_empty(a):
    svc(a)["methods"][6]["lro"] = {"resp": "google.protobuf.Empty", "meta": "ImportBooksMetadata"}
@variant
def unsafe_names(a):
    svc(a)["methods"] += [{"name": "CreateChannel", "in": "GetBookRequest", "out": "Book", "http": [{"verb": "get", "uri": "/v1/{name=shelves/*/books/*}:cc"}]},
                          {"name": "Return", "in": "GetBookRequest", "out": "Book", "http": [{"verb": "get", "uri": "/v1/{name=shelves/*/books/*}:ret"}]}]
@variant
def multi_pattern_resource(a):
    M(a, "Book")["resource"]["patterns"].append("archives/{archive}/books/{book}")
@variant
def file_level_resource(a):
    a["files"][0]["resource_definitions"] = [{"type": "lib.example.com/Archive", "patterns": ["archives/{archive}"]}]
    M(a, "ImportBooksRequest")["fields"].append({"name": "archive", "ref": "lib.example.com/Archive"})
@variant
def child_type_ref(a):
    M(a, "ListBooksRequest")["fields"][0] = {"name": "parent", "required": True, "child_ref": "lib.example.com/Book"}
@variant
def complex_resource(a):
    M(a, "Shelf")["resource"]["patterns"] = ["shelves/{shelf}~{wing}/rows/{row=**}"]
@variant
def wildcard_resource(a):
    M(a, "Shelf")["resource"]["patterns"] = ["*"]
@variant
def subpackage(a):
    a["files"].append({"name": "acme/lib/v1/admin/admin.proto", "package": "acme.lib.v1.admin", "deps": ["google/api/client.proto", "google/api/annotations.proto", "acme/lib/v1/lib.proto"],
        "messages": [{"name": "GetStaffRequest", "fields": [{"name": "name"}, {"name": "book", "type": "acme.lib.v1.Book"}]}, {"name": "Staff", "fields": [{"name": "name"}]}],
        "services": [{"name": "Admin", "methods": [{"name": "GetStaff", "in": "GetStaffRequest", "out": "Staff", "http": [{"verb": "get", "uri": "/v1/{name=staff/*}"}], "sigs": ["name"]}]}]})
@variant
def two_files(a):
    a["files"].append({"name": "acme/lib/v1/common.proto", "package": "acme.lib.v1", "deps": [], "messages": [{"name": "Money", "fields": [{"name": "units", "type": "int64"}]}], "enums": [{"name": "Tier", "values": ["TIER_UNSPECIFIED", "GOLD"]}]})
    a["files"].reverse(); a["files"][1]["deps"] = ["google/api/annotations.proto", "google/api/client.proto", "google/api/field_behavior.proto", "google/api/resource.proto", "google/protobuf/empty.proto", "google/protobuf/field_mask.proto", "google/longrunning/operations.proto", "acme/lib/v1/common.proto"]
    M(a, "Book")["fields"] += [{"name": "price", "type": "Money"}, {"name": "tier", "type": "enum:Tier"}]
@variant
def nested_types(a):
    M(a, "Book")["enums"] = [{"name": "Cover", "values": ["COVER_UNSPECIFIED", "HARD"]}]
    M(a, "Book")["fields"] += [{"name": "cover", "type": "enum:Book.Cover"}]
@variant
def required_nested_in_body(a):
    M(a, "Book")["fields"][1]["required"] = True
@variant
def float_required(a):
    M(a, "MoveBookRequest")["fields"].append({"name": "ratio", "type": "float", "required": True})
    svc(a)["methods"][5]["http"] = [{"verb": "post", "uri": "/v1/{name=shelves/*/books/*}:move"}]
@variant
def cs_with_http(a):
    svc(a)["methods"][9]["http"] = [{"verb": "post", "uri": "/v1/upload", "body": "*"}]
@variant
def bool_int_sig(a):
    M(a, "GetBookRequest")["fields"] += [{"name": "force", "type": "bool"}, {"name": "count", "type": "int64"}, {"name": "blob", "type": "bytes"}, {"name": "genre", "type": "enum:Genre"}, {"name": "shelf", "type": "Shelf"}, {"name": "names", "repeated": True}, {"name": "attrs", "type": "map:string,string"}]
    svc(a)["methods"][0]["sigs"] = ["name,force,count,blob,genre,shelf,names,attrs"]
@variant
def dotted_sig(a):
    svc(a)["methods"][2]["sigs"] = ["book.name,book.title,update_mask"]
@variant
def two_sigs(a):
    svc(a)["methods"][1]["sigs"] = ["parent,book,book_id", "parent,book"]
@variant
def paged_max_results(a):
    M(a, "ListBooksRequest")["fields"][1] = {"name": "max_results", "type": "google.protobuf.UInt32Value"}
@variant
def versionless(a):
    for f in a["files"]:
        f["package"] = "acme.lib"; f["name"] = "acme/lib/lib.proto"

def run(name_opts):
    name, opts = name_opts
    a = base(); V[name](a)
    root = f"/tmp/feas/v/{name}_{abs(hash(opts))%1000}"
    try:
        res = build.generate(build.build_request(a, opts))
    except Exception as e:
        return name, opts, "GEN-ERROR", traceback.format_exc()[-600:]
    build.materialise(res, root)
    import subprocess
    r = subprocess.run([sys.executable, '-m', 'pytest', '-q', '-p', 'no:cacheprovider', 'tests/unit', '--tb=line'], cwd=root, capture_output=True, text=True)
    tail = r.stdout.strip().splitlines()
    return name, opts, r.returncode, "\n".join(l for l in tail if "FAILED" in l or l.startswith("/") or "passed" in l or "failed" in l or "rror" in l)[-1500:]

if __name__ == "__main__":
    jobs = [(n, o) for n in V if n not in ("repeated_msg_body","lro_empty","unsafe_names","multi_pattern_resource","file_level_resource","child_type_ref","complex_resource","wildcard_resource") for o in ["transport=grpc+rest", "transport=grpc+rest,autogen-snippets=false"]]
    with ProcessPoolExecutor(16) as ex:
        for name, opts, rc, out in ex.map(run, jobs):
            print(f"{name:28s} rc={rc} {out if rc else out.splitlines()[-1] if out else ''}")
