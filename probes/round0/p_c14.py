import sys, json, glob, re, inspect, textwrap
sys.path.insert(0, "/tmp/feas/m")
from acme import lib_v1
md = json.load(open(glob.glob("/tmp/feas/m/samples/generated_samples/snippet_metadata*.json")[0]))
print("clientLibrary", md["clientLibrary"]["name"], md["clientLibrary"]["apis"])
tags = [s["regionTag"] for s in md["snippets"]]; print(len(tags), "snippets; unique:", len(set(tags)) == len(tags))
bad = []
for s in md["snippets"]:
    path = "/tmp/feas/m/samples/generated_samples/" + s["file"]
    lines = open(path).read().splitlines(keepends=True)
    start = [i for i, l in enumerate(lines, 1) if l.startswith("# [START")][0]; end = [i for i, l in enumerate(lines, 1) if l.startswith("# [END")][0]
    seg = {x["type"]: (x.get("start"), x.get("end")) for x in s["segments"]}
    if seg["FULL"] != (start + 1, end - 1): bad.append(("FULL", s["file"], seg["FULL"], (start + 1, end - 1)))
    if lines[start - 1].strip() != f"# [START {s['regionTag']}]": bad.append(("tag", s["file"]))
    # client + method exist
    cm = s["clientMethod"]; cls = getattr(lib_v1, cm["client"]["shortName"], None)
    meth = getattr(cls, cm["shortName"], None) if cls else None
    if meth is None: bad.append(("method", s["file"], cm["client"]["shortName"], cm["shortName"])); continue
    params = [p for p in inspect.signature(meth).parameters if p != "self"]
    if params != [p["name"] for p in cm["parameters"]]: bad.append(("params", s["file"], params, [p["name"] for p in cm["parameters"]]))
    # docstring embedding
    full = "".join(lines[seg["FULL"][0] - 1: seg["FULL"][1]])
    doc = inspect.getdoc(meth) or ""
    if textwrap.dedent(full).strip() not in textwrap.dedent(doc): bad.append(("doc", s["file"]))
    # segment ordering sanity
    order = ["CLIENT_INITIALIZATION", "REQUEST_INITIALIZATION", "REQUEST_EXECUTION", "RESPONSE_HANDLING"]
    spans = [seg[o] for o in order]
    for (a, b), (c, d) in zip(spans, spans[1:]):
        if a is None or b is None or c is None or b + 1 != c: bad.append(("segments", s["file"], spans)); break
print(len(bad), bad[:6])
