import sys, itertools, re, collections, asyncio, urllib.parse
sys.path.insert(0, '/tmp/feas')
import build
# ---- independent AIP-4222 matcher (prototype of the TLA+ operator)
def parse_tmpl(t):
    # returns list of (kind, text, captured:boolean) and key
    segs = []; key = None; i = 0
    m = re.search(r"\{([^=}]+)(?:=([^}]*))?\}", t)
    if m:
        key = m.group(1); inner = m.group(2) if m.group(2) is not None else "*"
        pre, post = t[:m.start()], t[m.end():]
        for s in [x for x in pre.split("/") if x != ""]: segs.append((s, False))
        for s in inner.split("/"): segs.append((s, True))
        for s in [x for x in post.split("/") if x != ""]: segs.append((s, False))
    else:
        for s in t.split("/"): segs.append((s, False))
    return segs, key
def match(t, value):
    segs, key = parse_tmpl(t)
    vs = value.split("/")
    def rec(i, j, cap):
        if i == len(segs):
            return cap if j == len(vs) else None
        s, c = segs[i]
        if s == "**":
            for k in range(j, len(vs) + 1):
                r = rec(i + 1, k, cap + (vs[j:k] if c else []))
                if r is not None: return r
            return None
        if j >= len(vs): return None
        if s == "*":
            if vs[j] == "": return None
        elif vs[j] != s: return None
        return rec(i + 1, j + 1, cap + ([vs[j]] if c else []))
    r = rec(0, 0, [])
    if r is None: return None
    return key, "/".join(r)
def expected(params, req):
    h = {}
    for field, tmpl in params:
        v = req.get(field, "")
        if not v: continue
        if not tmpl: h[field] = v; continue
        r = match(tmpl, v)
        if r and r[1]: h[r[0]] = r[1]
    return h
RULES = {
 "NoTmpl": [("name", "")],
 "Full": [("name", "{name=projects/*/instances/*}")],
 "Extract": [("name", "projects/*/{inst=instances/*}")],
 "Star": [("name", "{k=*}")],
 "DStar": [("name", "{k=**}")],
 "PrefixDStar": [("name", "{k=projects/*}/**")],
 "InnerDStar": [("name", "{k=projects/*/**}")],
 "SuffixLit": [("name", "projects/*/{k=instances/*}/tables/*")],
 "LastWins": [("name", "{k=projects/*}/**"), ("name", "projects/*/{k=instances/*}/**"), ("other", "{k=regions/*}")],
 "TwoKeys": [("name", "{a=projects/*}/**"), ("other", "{b=**}"), ("other", "")],
}
VALUES = ["", "projects/p", "projects/p/instances/i", "projects/p/instances/i/tables/t", "projects/p/", "projects//instances/i", "x", "projects/p q/instances/a&b=c%", "projects/é/instances/i", "regions/r"]
methods = []
for n, ps in RULES.items():
    methods.append({"name": n, "in": "Req", "out": "Resp", "routing": [{"field": f, "tmpl": t} for f, t in ps]})
api = {"files": [{"name": "acme/rt/v1/rt.proto", "package": "acme.rt.v1", "messages": [{"name": "Req", "fields": [{"name": "name"}, {"name": "other"}]}, {"name": "Resp", "fields": [{"name": "x"}]}],
        "services": [{"name": "Rt", "methods": methods}]}]}
res = build.generate(build.build_request(api, "transport=grpc,autogen-snippets=false"))
build.materialise(res, "/tmp/feas/rt"); sys.path.insert(0, "/tmp/feas/rt")
from acme import rt_v1
import grpc
from concurrent import futures
from acme.rt_v1.services.rt.transports import RtGrpcTransport, RtGrpcAsyncIOTransport
log = []
class H(grpc.GenericRpcHandler):
    def service(self, hcd):
        def uu(req, ctx):
            md = [(k, v) for k, v in ctx.invocation_metadata() if k == "x-goog-request-params"]
            log.append(md); return rt_v1.Resp.serialize(rt_v1.Resp())
        return grpc.unary_unary_rpc_method_handler(uu)
srv = grpc.server(futures.ThreadPoolExecutor(max_workers=2)); srv.add_generic_rpc_handlers((H(),))
port = srv.add_insecure_port("127.0.0.1:0"); srv.start()
c = rt_v1.RtClient(transport=RtGrpcTransport(channel=grpc.insecure_channel(f"127.0.0.1:{port}")))
bad = []
n = 0
from gapic.utils import to_snake_case
for mname, ps in RULES.items():
    for v, o in itertools.product(VALUES, ["", "regions/r", "zz"]):
        log.clear(); n += 1
        getattr(c, to_snake_case(mname))(request={"name": v, "other": o})
        md = log[0]
        got = dict(urllib.parse.parse_qsl(md[0][1], keep_blank_values=True)) if md else None
        exp = expected(ps, {"name": v, "other": o})
        if (got or {}) != exp or (md and not exp):
            bad.append((mname, v, o, md, exp))
print(n, "calls;", len(bad), "mismatches")
for b in bad[:12]: print(b)
srv.stop(0)
