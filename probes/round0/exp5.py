import sys, traceback, ast
sys.path.insert(0, '/tmp/feas')
import build
from exp1 import base
from exp2 import svc, M
def try_(name, mut, opts="transport=grpc+rest,autogen-snippets=false", root="/tmp/feas/p"):
    a = base(); mut(a)
    try:
        res = build.generate(build.build_request(a, opts))
    except Exception as e:
        print(name, "GEN-ERROR", repr(e)[:200]); return None
    bad = []
    for f in res.file:
        if f.name.endswith(".py"):
            try: ast.parse(f.content)
            except SyntaxError as e: bad.append((f.name, e.lineno, f.content.splitlines()[e.lineno-1][:100]))
    print(name, "syntax errors:", bad[:3])
    return res
def routing_kw(a):
    M(a, "GetBookRequest")["fields"].append({"name": "class"})
    svc(a)["methods"][0]["routing"] = [{"field": "class"}, {"field": "class", "tmpl": "{klass=shelves/*}/**"}]
try_("routing_kw", routing_kw)
def routing_type(a):
    M(a, "GetBookRequest")["fields"].append({"name": "type"})
    svc(a)["methods"][0]["routing"] = [{"field": "type"}]
try_("routing_type", routing_type)
def nested_reserved_path(a):
    M(a, "Book")["fields"].append({"name": "class"})
    svc(a)["methods"][2]["http"] = [{"verb": "patch", "uri": "/v1/{book.class=shelves/*/books/*}", "body": "book"}]
try_("nested_reserved_path", nested_reserved_path)
def body_reserved(a):
    M(a, "UpdateBookRequest")["fields"] = [{"name": "class", "type": "Book"}, {"name": "name"}]
    svc(a)["methods"][2]["http"] = [{"verb": "patch", "uri": "/v1/{name=shelves/*/books/*}", "body": "class"}]
    svc(a)["methods"][2]["sigs"] = ["class"]
try_("body_reserved", body_reserved)
