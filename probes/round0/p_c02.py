import sys, itertools, random, subprocess, json, traceback
sys.path.insert(0, '/tmp/feas')
import build
from google.protobuf import descriptor_pb2 as d, descriptor_pool, message_factory, json_format
from google.protobuf.compiler import plugin_pb2
# Build descriptors directly for nesting/recursion/cross-file shapes
SC = dict(double=1, float=2, int64=3, uint64=4, int32=5, fixed64=6, fixed32=7, bool=8, string=9, bytes=12, uint32=13, sfixed32=15, sfixed64=16, sint32=17, sint64=18)
MAPKEYS = ["int64", "uint64", "int32", "fixed64", "fixed32", "bool", "string", "uint32", "sfixed32", "sfixed64", "sint32", "sint64"]
pkg = "acme.ty.v1"
f1 = d.FileDescriptorProto(name="acme/ty/v1/common.proto", package=pkg, syntax="proto3")
e = f1.enum_type.add(name="Color"); [e.value.add(name=n, number=i) for i, n in enumerate(["COLOR_UNSPECIFIED", "RED", "BLUE"])]
m = f1.message_type.add(name="Leaf"); m.field.add(name="v", number=1, type=9, label=1, json_name="v"); m.field.add(name="later", number=2, type=11, label=1, type_name=f".{pkg}.Later", json_name="later")
m = f1.message_type.add(name="Later"); m.field.add(name="x", number=1, type=5, label=1, json_name="x")
f2 = d.FileDescriptorProto(name="acme/ty/v1/main.proto", package=pkg, syntax="proto3"); f2.dependency.extend(["acme/ty/v1/common.proto", "google/protobuf/timestamp.proto", "google/protobuf/struct.proto", "google/rpc/status.proto", "google/api/client.proto"])
def add(msg, name, num, typ, label=1, tn=None, **kw):
    f = msg.field.add(name=name, number=num, type=typ, label=label, json_name=build.camel(name))
    if tn: f.type_name = tn
    for k, v in kw.items(): setattr(f, k, v)
    return f
A = f2.message_type.add(name="All")
n = 1
for s, t in SC.items(): add(A, "f_" + s, n, t); n += 1
for s, t in SC.items(): add(A, "r_" + s, n, t, label=3); n += 1
A.oneof_decl.add(name="choice")
add(A, "c_str", n, 9, oneof_index=0); n += 1
add(A, "c_msg", n, 11, tn=f".{pkg}.Leaf", oneof_index=0); n += 1
add(A, "c_enum", n, 14, tn=f".{pkg}.Color", oneof_index=0); n += 1
opt_fields = []
for s in ("string", "int32", "bool", "double", "bytes"):
    A.oneof_decl.add(name="_o_" + s); add(A, "o_" + s, n, SC[s], oneof_index=len(A.oneof_decl) - 1, proto3_optional=True); n += 1
A.oneof_decl.add(name="_o_msg"); add(A, "o_msg", n, 11, tn=f".{pkg}.Leaf", oneof_index=len(A.oneof_decl) - 1, proto3_optional=True); n += 1
A.oneof_decl.add(name="_o_enum"); add(A, "o_enum", n, 14, tn=f".{pkg}.Color", oneof_index=len(A.oneof_decl) - 1, proto3_optional=True); n += 1
for k in MAPKEYS:
    ent = A.nested_type.add(name="M" + k.capitalize() + "Entry"); ent.options.map_entry = True
    add(ent, "key", 1, SC[k]); add(ent, "value", 2, 11, tn=f".{pkg}.Leaf")
    add(A, "m_" + k, n, 11, label=3, tn=f".{pkg}.All.{ent.name}"); n += 1
ent = A.nested_type.add(name="MeEntry"); ent.options.map_entry = True; add(ent, "key", 1, 9); add(ent, "value", 2, 14, tn=f".{pkg}.Color"); add(A, "me", n, 11, label=3, tn=f".{pkg}.All.MeEntry"); n += 1
# nesting depth 4 with references across levels
L1 = A.nested_type.add(name="L1"); L2 = L1.nested_type.add(name="L2"); L3 = L2.nested_type.add(name="L3")
ne = L2.enum_type.add(name="Deep"); [ne.value.add(name=x, number=i) for i, x in enumerate(["DEEP_UNSPECIFIED", "VERY"])]
add(L3, "up", 1, 11, tn=f".{pkg}.All.L1"); add(L3, "deep", 2, 14, tn=f".{pkg}.All.L1.L2.Deep"); add(L3, "self_", 3, 11, tn=f".{pkg}.All.L1.L2.L3"); add(L3, "sib", 4, 11, tn=f".{pkg}.All.Sib")
add(L2, "l3", 1, 11, tn=f".{pkg}.All.L1.L2.L3"); add(L2, "l3s", 2, 11, label=3, tn=f".{pkg}.All.L1.L2.L3")
add(L1, "l2", 1, 11, tn=f".{pkg}.All.L1.L2"); add(L1, "root", 2, 11, tn=f".{pkg}.All")
Sib = A.nested_type.add(name="Sib"); add(Sib, "l1", 1, 11, tn=f".{pkg}.All.L1"); add(Sib, "d", 2, 14, tn=f".{pkg}.All.L1.L2.Deep")
add(A, "l1", n, 11, tn=f".{pkg}.All.L1"); n += 1
add(A, "deep", n, 14, tn=f".{pkg}.All.L1.L2.Deep"); n += 1
add(A, "l3", n, 11, tn=f".{pkg}.All.L1.L2.L3"); n += 1
add(A, "me_again", n, 11, tn=f".{pkg}.All"); n += 1
add(A, "mutual", n, 11, tn=f".{pkg}.Mutual"); n += 1
add(A, "leaf", n, 11, tn=f".{pkg}.Leaf"); n += 1
add(A, "ts", n, 11, tn=".google.protobuf.Timestamp"); n += 1
add(A, "st", n, 11, tn=".google.protobuf.Struct"); n += 1
add(A, "status", n, 11, tn=".google.rpc.Status"); n += 1
for w in ("class", "type", "format", "from"): add(A, w, n, 9); n += 1
Mu = f2.message_type.add(name="Mutual"); add(Mu, "all", 1, 11, tn=f".{pkg}.All"); add(Mu, "alls", 2, 11, label=3, tn=f".{pkg}.All")
s = f2.service.add(name="Ty"); s.options.Extensions[build.client_pb2.default_host] = "ty.example.com"
s.method.add(name="Do", input_type=f".{pkg}.All", output_type=f".{pkg}.All")
req = plugin_pb2.CodeGeneratorRequest()
for mod in build.DEPS: req.proto_file.append(build.fdp_of(mod))
req.proto_file.extend([f1, f2]); req.file_to_generate.extend([f1.name, f2.name]); req.parameter = "transport=grpc,autogen-snippets=false"
res = build.generate(req); build.materialise(res, "/tmp/feas/ty"); sys.path.insert(0, "/tmp/feas/ty")
from acme import ty_v1
All = ty_v1.All
# descriptor comparison
pool = descriptor_pool.DescriptorPool()
for f in req.proto_file: pool.Add(f)
def proj(desc, gen):
    out = {}
    for fd in desc.fields:
        name = fd.name
        out[fd.number] = (name.rstrip("_") if gen else name, fd.type, fd.label, fd.containing_oneof.name if fd.containing_oneof else None, fd.has_presence,
                          fd.message_type.full_name if fd.message_type else None, fd.enum_type.full_name if fd.enum_type else None, fd.json_name)
    return out
bad = 0
def cmp(gen_desc, in_desc, path):
    global bad
    a, b = proj(gen_desc, True), proj(in_desc, False)
    if a != b:
        bad += 1
        for k in sorted(set(a) | set(b)):
            if a.get(k) != b.get(k): print("DIFF", path, k, a.get(k), b.get(k))
    for nt in in_desc.nested_types:
        g = gen_desc.nested_types_by_name.get(nt.name)
        if g is None: print("MISSING nested", path, nt.name); bad += 1
        else: cmp(g, nt, path + "." + nt.name)
    for et in in_desc.enum_types:
        g = gen_desc.enum_types_by_name.get(et.name)
        if g is None or [(v.name, v.number) for v in g.values] != [(v.name, v.number) for v in et.values]: print("ENUM diff", path, et.name); bad += 1
for name in ("All", "Mutual", "Leaf", "Later"):
    cmp(getattr(ty_v1, name).pb(getattr(ty_v1, name)()).DESCRIPTOR, pool.FindMessageTypeByName(f"{pkg}.{name}"), name)
print("descriptor diffs:", bad)
# round trip
InAll = message_factory.GetMessageClass(pool.FindMessageTypeByName(f"{pkg}.All"))
x = All(f_string="s", f_int64=-5, f_uint64=2**63, f_bytes=b"\x00\xff", f_double=1.5, r_int32=[1, 2], r_bool=[True, False], c_enum=ty_v1.Color.BLUE, o_string="", o_int32=0, o_bool=False,
        o_msg={}, o_enum=0, m_string={"a": {"v": "1"}}, m_bool={True: {"v": "t"}}, m_int64={-7: {}}, me={"k": 2}, l1={"l2": {"l3": {"deep": 1, "up": {"root": {"f_string": "deep"}}, "self_": {"sib": {"d": 1}}}}},
        deep=1, me_again={"mutual": {"alls": [{"f_int32": 3}]}}, class_="c", type_="t", from_="f", ts="2020-01-01T00:00:00Z", st={"a": [1, "b"]}, status={"code": 3})
raw = All.serialize(x); y = InAll.FromString(raw)
print("present optionals via input descriptor:", [n for n in ("o_string", "o_int32", "o_bool", "o_msg", "o_enum", "o_double") if y.HasField(n)], "oneof:", y.WhichOneof("choice"))
raw2 = y.SerializeToString(deterministic=True); z = All.deserialize(raw2)
print("roundtrip equal:", z == x, "json keys sample:", sorted(json.loads(All.to_json(x)).keys())[:6], "class" in json.loads(All.to_json(x)), "fString" in json.loads(All.to_json(x)))
w = InAll(); json_format.ParseDict({"fString": "q", "class": "k", "mString": {"a": {"v": "1"}}, "l1": {"l2": {"l3s": [{"deep": "VERY"}]}}}, w)
v = All.deserialize(w.SerializeToString()); print("in->gen:", v.f_string, v.class_, v.m_string["a"].v, v.l1.l2.l3s[0].deep)
