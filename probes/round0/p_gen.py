import sys, json, yaml, copy, traceback, os, re, collections
sys.path.insert(0, '/tmp/feas')
import build
def gen(api, opts=""):
    try:
        res = build.generate(build.build_request(api, opts)); return ("ok", res)
    except Exception as e:
        return ("EXC", type(e).__name__, str(e).replace("\n", " ")[:160])
# ---------- C08 LRO resolution
def lro_api(resp, meta, where="same", imported=True):
    files = []
    main = {"name": "acme/lr/v1/lr.proto", "package": "acme.lr.v1", "deps": ["google/api/client.proto", "google/protobuf/empty.proto", "google/longrunning/operations.proto"],
            "messages": [{"name": "Req", "fields": [{"name": "name"}]}],
            "services": [{"name": "Lr", "methods": [{"name": "Run", "in": "Req", "out": "google.longrunning.Operation", "lro": {"resp": resp, "meta": meta} if resp is not None else None}]}]}
    types = [{"name": "RunResponse", "fields": [{"name": "x"}]}, {"name": "RunMetadata", "fields": [{"name": "p", "type": "int32"}]}]
    if where == "same": main["messages"] += types
    else:
        files.append({"name": "acme/lr/v1/types.proto", "package": "acme.lr.v1", "deps": [], "messages": types})
        if imported: main["deps"].append("acme/lr/v1/types.proto")
    files.append(main)
    return {"files": files}
print("== C08")
for resp, meta in [("RunResponse", "RunMetadata"), ("acme.lr.v1.RunResponse", "acme.lr.v1.RunMetadata"), ("google.protobuf.Empty", "RunMetadata"), ("RunResponse", ""), ("", "RunMetadata"), (None, None), ("lr.v1.RunResponse", "RunMetadata"), ("Nope", "RunMetadata")]:
    for where, imp in [("same", True), ("other", True), ("other", False)]:
        r = gen(lro_api(resp, meta, where, imp), "transport=grpc,autogen-snippets=false")
        print(f"  resp={resp!r:28} meta={meta!r:26} {where:5} imported={imp!s:5} ->", r[0] if r[0] == "ok" else r[1:])
# ---------- C09 retry config parsing
print("== C09")
from gapic.schema import api as gapi
from gapic.utils import Options
def retry_of(cfg):
    open("/tmp/feas/rc.json", "w").write(json.dumps(cfg))
    a = lro_api(None, None)
    a["files"][0]["services"][0]["methods"] = [{"name": n, "in": "Req", "out": "Req"} for n in ("A", "B", "C")]
    req = build.build_request(a, "retry-config=/tmp/feas/rc.json")
    try:
        s = gapi.API.build(req.proto_file, opts=Options.build(req.parameter), package="acme.lr.v1")
    except Exception as e: return ("EXC", type(e).__name__, str(e)[:100])
    out = {}
    for n, m in s.services["acme.lr.v1.Lr"].methods.items():
        out[n] = (m.timeout, m.retry and (m.retry.initial_backoff, m.retry.max_backoff, m.retry.backoff_multiplier, sorted(e.__name__ for e in m.retry.retryable_exceptions)))
    return out
N = lambda *ms: [{"service": "acme.lr.v1.Lr", "method": m} for m in ms]
print(" ", retry_of({"methodConfig": [{"name": N("A", "B"), "timeout": "1.5s", "retryPolicy": {"initialBackoff": "0.25s", "maxBackoff": "32s", "backoffMultiplier": 1.3, "retryableStatusCodes": ["UNAVAILABLE"]}}, {"name": N("A"), "timeout": "9s"}, {"name": N("C"), "timeout": "500000000n"}]}))
print(" ", retry_of({"methodConfig": [{"name": [{"service": "acme.lr.v1.Lr"}], "timeout": "7s"}, {"name": N("B"), "retryPolicy": {"retryableStatusCodes": ["ABORTED", "UNKNOWN"]}}]}))
print(" ", retry_of({"methodConfig": [{"name": N("A"), "timeout": "0.000000001s"}, {"name": N("B"), "timeout": "60"}, {"name": N("C"), "timeout": "1m"}]}))
codes = ["CANCELLED","UNKNOWN","INVALID_ARGUMENT","DEADLINE_EXCEEDED","NOT_FOUND","ALREADY_EXISTS","PERMISSION_DENIED","RESOURCE_EXHAUSTED","FAILED_PRECONDITION","ABORTED","OUT_OF_RANGE","UNIMPLEMENTED","INTERNAL","UNAVAILABLE","DATA_LOSS","UNAUTHENTICATED"]
r = retry_of({"methodConfig": [{"name": N("A"), "retryPolicy": {"initialBackoff": "1s", "maxBackoff": "2s", "backoffMultiplier": 2, "retryableStatusCodes": codes}}]})
print(" ", r["A"] if isinstance(r, dict) else r)
