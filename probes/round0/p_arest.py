import sys, yaml, subprocess
sys.path.insert(0, '/tmp/feas')
import build
from exp1 import base
a = base()
y = {"type": "google.api.Service", "config_version": 3, "name": "lib.example.com", "apis": [{"name": "acme.lib.v1.Library"}, {"name": "google.cloud.location.Locations"}],
     "http": {"rules": [{"selector": "google.cloud.location.Locations.GetLocation", "get": "/v1/{name=projects/*/locations/*}"}]},
     "publishing": {"library_settings": [{"version": "acme.lib.v1", "python_settings": {"experimental_features": {"rest_async_io_enabled": True}}}]}}
open("/tmp/feas/y_ar.yaml", "w").write(yaml.safe_dump(y))
for mix in (True, False):
    if not mix: y["apis"] = y["apis"][:1]; y.pop("http"); open("/tmp/feas/y_ar.yaml", "w").write(yaml.safe_dump(y))
    res = build.generate(build.build_request(a, "transport=rest,service-yaml=/tmp/feas/y_ar.yaml")); build.materialise(res, "/tmp/feas/arx")
    print("mixins" if mix else "no mixins", sorted(f.name for f in res.file if "services/library" in f.name and f.name.endswith(".py")))
    r = subprocess.run([sys.executable, "-c", "import sys; sys.path.insert(0,'/tmp/feas/arx'); from acme import lib_v1; print([n for n in dir(lib_v1) if 'Client' in n]); from acme.lib_v1.services.library import async_client"], capture_output=True, text=True)
    print(r.stdout.strip(), r.stderr.strip().splitlines()[-1:] )
    r = subprocess.run([sys.executable, '-m', 'pytest', '-q', '-p', 'no:cacheprovider', 'tests/unit', '--tb=line'], cwd="/tmp/feas/arx", capture_output=True, text=True)
    print([l for l in r.stdout.splitlines() if "passed" in l or "failed" in l or "Error" in l][-3:])
